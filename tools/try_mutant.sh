#!/bin/bash
# try_mutant.sh <patch.diff> <props...> : apply to /repo, run the quick checks, undo. Prints which properties raise a VIOLATION.
P=$(realpath "$1"); shift
cd /repo && git apply "$P" || { echo "patch does not apply to /repo"; exit 2; }
for p in "$@"; do
  out=$(cd /verif && ./check $p --tier ${TIER:-quick} 2>&1); rc=$?
  echo "$p exit=$rc $(echo "$out" | grep -c '^VIOLATION') violations"
  echo "$out" | grep '^VIOLATION' | cut -c1-260 | head -4
done
git -C /repo checkout -- .
# leave the harness built against the clean tree
(cd /verif/harness && cargo build --release --offline >/dev/null 2>&1)
