#!/bin/bash
# Runs every registered check once (tier = $1, default quick), summarises exit codes, and prints what each
# check excluded or left undetermined (read these: a large exclusion is a hole in coverage).
TIER=${1:-quick}
cd /verif
for p in C01 C02 C03 C04 C05 C06 C07 C08 C09 C10 C11 C12 C13 C14 C15 C16 C17; do
  out=$(./check $p --tier $TIER 2>&1); rc=$?
  echo "$p exit=$rc $(echo "$out" | grep '^SUMMARY' | sed 's/SUMMARY property=[A-Z0-9]* //')"
  echo "$out" | grep '^VIOLATION' | cut -c1-240
  python3 - "$p" <<'PY'
import json,sys
try:
    e=json.load(open(f'/verif/evidence/{sys.argv[1]}.json'))
    x=e['coverage'].get('excluded_or_undetermined') or {}
    if x:
        top=sorted(x.items(), key=lambda kv:-kv[1])[:5]
        print('    excluded/undetermined:', '; '.join(f'{k}={v}' for k,v in top))
except Exception as ex:
    print('    (no evidence)', ex)
PY
done
