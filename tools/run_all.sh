#!/bin/bash
# Runs every registered check once (tier = $1, default quick) and summarises exit codes.
TIER=${1:-quick}
cd /verif
for p in C01 C02 C03 C04 C05 C06 C07 C08 C09 C10 C11 C12 C13 C14 C15 C16 C17; do
  out=$(./check $p --tier $TIER 2>&1); rc=$?
  echo "$p exit=$rc $(echo "$out" | grep '^SUMMARY' | sed 's/SUMMARY property=[A-Z0-9]* //')"
  echo "$out" | grep '^VIOLATION' | cut -c1-240
done
