#!/bin/bash
# libFuzzer campaigns for C07 (thorough tier). Work-bounded (-runs), seeded with VERIF_SEED.
# A crashing input is re-decided by the deterministic harness (./check C07 --replay) before a
# VIOLATION line is printed. exit 0 / 1 / 2 like the checks.
cd /verif/harness/fuzz || exit 2
export CARGO_NET_OFFLINE=true
[ -f Cargo.lock ] || cp /repo/Cargo.lock .
RUNS=${VERIF_FUZZ_RUNS:-300000}
SEED=${VERIF_SEED:-1}; [ "$SEED" = "0" ] && SEED=1
BIN=/verif/harness/target/release/swiftmt-check
rc=0; total=0; summary=""
for t in fz_message fz_field fz_header fz_json; do
  if ! cargo +nightly fuzz build $t >/tmp/verif-fuzz-build.log 2>&1; then
    echo "FUZZ-BUILD-FAILED $t (inconclusive)" >&2; tail -20 /tmp/verif-fuzz-build.log >&2; exit 2
  fi
  mkdir -p corpus/$t artifacts/$t
  # seed corpus: a few valid inputs produced by the harness generators (committed under seeds/)
  [ -d seeds/$t ] && cp -n seeds/$t/* corpus/$t/ 2>/dev/null
  rm -f artifacts/$t/*
  out=$(cargo +nightly fuzz run $t -- -runs=$RUNS -seed=$SEED -len_control=0 -max_len=2048 -print_final_stats=1 2>&1 | grep -v '^DEBUG')
  execs=$(echo "$out" | grep -o 'stat::number_of_executed_units: [0-9]*' | grep -o '[0-9]*$')
  total=$((total + ${execs:-0}))
  summary="$summary $t=${execs:-0}"
  for a in artifacts/$t/crash-* artifacts/$t/oom-* artifacts/$t/timeout-*; do
    [ -f "$a" ] || continue
    case "$a" in *oom-*|*timeout-*) echo "fuzz $t: $a (resource limit: inconclusive, not a violation)" >&2; [ $rc -eq 0 ] && rc=2; continue;; esac
    mkdir -p /verif/replays/C07
    r=/verif/replays/C07/fuzz-$t-$(basename "$a").json
    $BIN fuzz-artifact $t "$a" > "$r"
    if $BIN C07 --replay "$r" | grep '^VIOLATION'; then rc=1; else echo "fuzz $t: artifact $a did not reproduce in the deterministic harness (ignored)" >&2; fi
  done
done
echo "FUZZ-SUMMARY property=C07 executions=$total ($summary ) runs_per_target=$RUNS seed=$SEED"
# record the campaign in the evidence file
E=/verif/evidence/C07.json
if [ -f "$E" ]; then
  jq --argjson n "$total" --arg s "$summary" '.coverage.libfuzzer_executions = $n | .coverage.libfuzzer_targets = $s | .coverage.evaluations += $n' "$E" > "$E.tmp" && mv "$E.tmp" "$E"
fi
exit $rc
