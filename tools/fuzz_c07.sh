#!/bin/bash
# libFuzzer campaigns for C07 (thorough tier). Work-bounded (-runs), seeded with VERIF_SEED.
# A crashing input is re-decided by the deterministic harness (./check C07 --replay) before a
# VIOLATION line is printed. exit 0 / 1 / 2 like the checks.
cd /verif/harness/fuzz || exit 2
export CARGO_NET_OFFLINE=true
[ -f Cargo.lock ] || cp /repo/Cargo.lock .
RUNS=${VERIF_FUZZ_RUNS:-400000}
HANG=${VERIF_HANG_S:-120}
SEED=${VERIF_SEED:-1}; [ "$SEED" = "0" ] && SEED=1
BIN=/verif/harness/target/release/swiftmt-check
rc=0; total=0; summary=""
TARGETS="fz_message fz_field fz_header fz_json"
# -O: optimised, no debug assertions (the library prints debug lines to stderr with them on)
if ! cargo +nightly fuzz build -O >/verif/harness/fuzz/build.log 2>&1; then
  echo "FUZZ-BUILD-FAILED (inconclusive)" >&2; tail -20 /verif/harness/fuzz/build.log >&2; exit 2
fi
for t in $TARGETS; do
  mkdir -p corpus/$t artifacts/$t
  # seed corpus: a few valid inputs produced by the harness generators (committed under seeds/)
  [ -d seeds/$t ] && cp -n seeds/$t/* corpus/$t/ 2>/dev/null
  rm -f artifacts/$t/*
  # four workers per target, each a libFuzzer process with its own seed, sharing the corpus directory
  for w in 1 2 3 4; do
    cargo +nightly fuzz run -O $t -- -runs=$((RUNS / 4)) -seed=$((SEED * 4 + w)) -len_control=0 -max_len=2048 -timeout=$HANG -print_final_stats=1 >run.$t.$w.log 2>&1 &
  done
done
wait
for t in $TARGETS; do
  execs=0
  for w in 1 2 3 4; do
    e=$(grep -a -o 'stat::number_of_executed_units: [0-9]*' run.$t.$w.log | grep -o '[0-9]*$' | tail -1)
    execs=$((execs + ${e:-0}))
  done
  total=$((total + execs))
  summary="$summary $t=$execs"
  for a in artifacts/$t/crash-* artifacts/$t/oom-* artifacts/$t/timeout-*; do
    [ -f "$a" ] || continue
    case "$a" in *oom-*) echo "fuzz $t: $a (memory limit: inconclusive, not a violation)" >&2; [ $rc -eq 0 ] && rc=2; continue;; esac
    # crash-* and timeout-* (one input kept an entry point busy for $HANG s) are re-decided by the deterministic harness
    mkdir -p /verif/replays/C07
    r=/verif/replays/C07/fuzz-$t-$(basename "$a").json
    $BIN fuzz-artifact $t "$a" > "$r"
    if $BIN C07 --replay "$r" | grep '^VIOLATION'; then rc=1; else echo "fuzz $t: artifact $a did not reproduce in the deterministic harness (ignored: no failing input can be shown)" >&2; fi
  done
done
if [ "$total" -eq 0 ]; then echo "FUZZ: no executions recorded (inconclusive)" >&2; [ $rc -eq 0 ] && rc=2; fi
echo "FUZZ-SUMMARY property=C07 executions=$total ($summary ) runs_per_target=$RUNS seed=$SEED"
# record the campaign in the evidence file
E=/verif/evidence/C07.json
if [ -f "$E" ]; then
  jq --argjson n "$total" --arg s "$summary" '.coverage.libfuzzer_executions = $n | .coverage.libfuzzer_targets = $s | .coverage.evaluations += $n' "$E" > "$E.tmp" && mv "$E.tmp" "$E"
fi
exit $rc
