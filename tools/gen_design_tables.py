#!/usr/bin/env python3
"""Regenerates sections 11-13 of DESIGN.md (between the markers) from known_findings.json and seeded/*/meta.json."""
import json, glob, os, re, collections
k = json.load(open('/verif/known_findings.json'))
out = []
out.append("## 11. Repairs made in /repo (`fix:` commits)\n")
out.append("Each was first reported by the check named in its entry (signature in brackets), reproduced against the real code,\njudged a genuine defect with a small and safe repair, committed unguarded with the unedited suite (274+1+13) passing,\nand re-checked with the census so that the repair itself introduces no new violation. `known_findings.json` lists them\nunder `fixed` (they suppress nothing).\n")
for f in k.get('fixed', []):
    out.append("- " + f[len("fixed: "):] if f.startswith("fixed: ") else "- " + f)
out.append("\nOne attempted repair was withdrawn before the end: limiting every amount to its `Nd` length made the library reject its\nown output (`to_swift_string` pads to the currency precision, so a 14-digit USD amount re-serialises to 17 characters); the\ncommit was dropped and the defect stays a known finding (RC-NDLEN).\n")
out.append("## 12. Known findings (genuine defects recorded, not repaired)\n")
out.append("Grouped by root cause; the signatures are in `known_findings.json` (`*` = any value in that position).\n")
by = collections.defaultdict(list)
for e in k['findings']:
    by[e['root_cause']].append(e)
out.append("| root cause | properties | signatures | what fails | example |")
out.append("|---|---|---|---|---|")
for rc, es in sorted(by.items()):
    props = sorted(set(e['property'] for e in es))
    ex = es[0]['example'].replace('|', '\\|').replace('\n', ' ')[:160]
    desc = k['root_causes'].get(rc, '').replace('|', '\\|')
    out.append(f"| {rc} | {' '.join(props)} | {len(es)} | {desc} | `{ex}` |")
out.append("")
out.append("## 13. Seeded changes and which checks catch them\n")
out.append("Written by independent sub-agents that were given only the text of one property and a scratch worktree of `/repo`\n(nothing from `/verif`). Each was confirmed with `tools/confirm_mutant.sh` (patch applied: unedited suite passes, demo fails;\npatch removed: demo passes) and then run against the quick checks with `tools/try_mutant.sh`.\n")
out.append("| seeded change | breaks | needs, to manifest | caught by (quick tier) |")
out.append("|---|---|---|---|")
for m in sorted(glob.glob('/verif/seeded/*/meta.json')):
    j = json.load(open(m))
    caught = ', '.join(j['caught_by_quick_checks']) or '—'
    note = ''
    if j.get('neutralised'):
        note = ' no longer breaks the property: ' + j['neutralised']
    elif '(' in j['what_was_run'] and 'missed' in j['what_was_run']:
        note = ' — ' + j['what_was_run'][j['what_was_run'].index('('):]
    out.append(f"| {j['id']} | {j['breaks_property']} | {j['needs_to_manifest']} | {caught}{note} |")
out.append("")
text = "\n".join(out)
d = open('/verif/DESIGN.md').read()
a = "<!-- BEGIN GENERATED TABLES -->"
b = "<!-- END GENERATED TABLES -->"
if a in d:
    d = d[:d.index(a) + len(a)] + "\n" + text + "\n" + d[d.index(b):]
else:
    d = d.replace("## 11. Appendix B", a + "\n" + text + "\n" + b + "\n\n## 14. Appendix B")
open('/verif/DESIGN.md', 'w').write(d)
print("tables regenerated")
