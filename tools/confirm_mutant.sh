#!/bin/bash
# confirm_mutant.sh <dir containing patch.diff and demo.rs>
# In a scratch worktree of /repo: (1) with the patch the existing suite passes and the demo fails,
# (2) without the patch the demo passes. Prints CONFIRMED or the reason it is not.
D=$(realpath "$1"); W=/tmp/mutconfirm
if [ ! -d $W ]; then git -C /repo worktree add --detach $W HEAD >/dev/null 2>&1 || exit 2; fi
cd $W && git checkout -q --detach $(git -C /repo rev-parse HEAD) && git checkout -q -- . && rm -f tests/demo_mut.rs
git apply "$D/patch.diff" || { echo "NOT-CONFIRMED patch does not apply"; exit 1; }
suite=$(cargo test --offline --no-fail-fast 2>&1 | grep -E "^test result" | tr '\n' ' ')
cp "$D/demo.rs" tests/demo_mut.rs
demo_with=$(cargo test --offline --test demo_mut 2>&1 | grep -E "^test result" | tr '\n' ' ')
git checkout -q -- . 
demo_without=$(cargo test --offline --test demo_mut 2>&1 | grep -E "^test result" | tr '\n' ' ')
rm -f tests/demo_mut.rs
echo "suite(with patch): $suite"
echo "demo(with patch): $demo_with"
echo "demo(without): $demo_without"
if echo "$suite" | grep -q "FAILED\|failed; [1-9]"; then echo "NOT-CONFIRMED suite fails"; exit 1; fi
if ! echo "$suite" | grep -q "274 passed"; then echo "NOT-CONFIRMED suite did not run 274 unit tests"; exit 1; fi
if ! echo "$demo_with" | grep -q "FAILED"; then echo "NOT-CONFIRMED demo does not fail with patch"; exit 1; fi
if echo "$demo_without" | grep -q "FAILED" || [ -z "$demo_without" ]; then echo "NOT-CONFIRMED demo fails without patch"; exit 1; fi
echo CONFIRMED
