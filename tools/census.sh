#!/bin/bash
# Census of violation signatures on the current tree: every property, several seeds, both tiers.
# Usage: tools/census.sh OUTDIR [seeds...]   (prints nothing; writes OUTDIR/<ID>.<tier>.<seed>.txt)
OUT=${1:-/tmp/census}; shift
SEEDS=${@:-"1 2 3 4 5 6"}
mkdir -p "$OUT"
BIN=/verif/harness/target/release/swiftmt-check
for p in C01 C02 C03 C04 C05 C06 C07 C08 C09 C10 C11 C12 C13 C14 C15 C16 C17; do
  for s in $SEEDS; do
    VERIF_IGNORE_KNOWN=1 VERIF_SEED=$s timeout 1800 $BIN $p --discover > "$OUT/$p.quick.$s.txt" 2>/dev/null
  done
done
cat "$OUT"/*.txt | grep '^DISCOVERED' | cut -f2,3 | sort -u > "$OUT/signatures.tsv"
wc -l "$OUT/signatures.tsv"
