#!/usr/bin/env python3
"""Build /verif/known_findings.json from census output (tools/census.sh).

Every signature observed on the unchanged tree is mapped to a root cause by the
rules below; a signature no rule matches is printed as UNTRIAGED and NOT written
(so it keeps raising an alarm until someone looks at it). Cross-cutting root
causes are stored as wildcard signatures (`*` segment = any value).
Usage: build_known.py CENSUS_DIR [CENSUS_DIR...]
"""
import json, re, sys, glob, os

ROOT_CAUSES = {
 "RC-F64": "amounts are f64: a value with more than 15 significant digits (counting the currency's full decimal precision) changes on a round trip; inherent in the data model, not a small repair",
 "RC-NDLEN": "no amount parser limits the length of its Nd component (15d/17d/12d); limiting it naively breaks the round trip because to_swift_string pads to the currency precision",
 "RC-25SLASH": "fields 25 / 25A strip one leading '/' when parsing and always write one: ':25:ABC' is re-emitted as ':25:/ABC', ':25A://X' loses a slash per round (documented as deliberate in the code: 'JSON should not contain delimiters')",
 "RC-OPTB": "option-B party fields (52B/53B/54B/55B/57B) silently drop an over-long location and every line after the second; some do not check the character set",
 "RC-942-13D": "MT942 accepts field 13D in front of field 20 ('HashMap ordering' work-around in the parser) and re-emits it after 34F",
 "RC-E17": "MT103 rule C6/C10 second half (23B SSTD/SPAY => 56a only option A or C, error E17) is documented but not implemented",
 "RC-TOL": "MT104/MT107/MT204 amount rules (C01, D21, D80) compare f64 sums with a 0.01 tolerance instead of exactly: one-cent and sub-cent differences are missed or misreported",
 "RC-107C02": "MT107 C9 (C02) compares currencies only against sequence C fields, not across all occurrences as documented",
 "RC-T14": "MT935 T14 (sign with zero rate) tests |rate| < 0.00001 on an f64: a valid non-zero 12d rate such as 0,000001 with sign N is reported",
 "RC-SEQERR": "when the field that opens a repeating sequence (or any field the parser only reaches through a loop) is missing, the error is 'Unparsed content remaining' or names the next field: it identifies neither the missing tag nor the message type",
 "RC-EMPTYSEQ": "MT210 / MT942 (and MT104/107 via typed parse of foreign bodies) accept a message with zero sequence occurrences; the JSON then carries an empty '#' array",
 "RC-11TRAIL": "fields 11/11R/11S ignore whatever follows the optional session/sequence numbers (and accept a partial optional component)",
 "RC-119": "parse_mt derives the processing method of MT202/205 also from block-3 tag 119 (REJT/RETN/COV), which has_reject_codes / has_return_codes / is_cover_message do not consult; for MT103 it does not",
 "RC-MUR": "has_reject_codes()/has_return_codes() look at tag 108 for every type, but parse_mt reports method 'normal' for every type other than 103/202/205",
 "RC-RJT": "MT202/MT205 also treat /RJT/ and /RET/ in field 72 as reject/return code words, MT103 does not",
 "RC-LINES": "parsers built on str::lines()/split('\\n') ignore or keep empty lines: a leading, trailing or inner blank line is accepted (and sometimes stored as an empty line)",
 "RC-XCHARS": "parse_swift_chars counts CR and LF as SWIFT x characters, so single-line components accept line breaks and a lone CR; several parsers do not check the character set at all (tab, NUL, non-ASCII pass)",
 "RC-TRAIL": "per-field leniency: data after the last documented component, an over-long or missing component is ignored instead of rejected",
 "RC-TRUNC": "name-and-address style parsers accept more lines than documented (party line counted or not) or keep/drop the surplus",
 "RC-EMPTY": "empty content is accepted by parsers whose format has a mandatory component",
 "RC-FIELDMISC": "field-specific deviation from the documented format (see signature)",
 "RC-B5STRUCT": "Trailer::parse reads only CHK, TNG, DLM and MAC ('more complex parsing for structured tags can be added here'): the structured tags PDE and MRF, which the Trailer struct models and its Display writes, are dropped from any parsed message (as are PDM and SYS, which Display does not write either)",
 "RC-B3SLASH": "block-3 tags 433 / 434 are documented as 3!a/[20x]; a value whose slash is followed by nothing ('{433:NOK/}') is read as the bare code and written back without the slash",
 "RC-POS16": "parse_block4_fields stamps each value with (line << 16) | (field index & 0xFFFF): beyond 65 535 fields the stamps repeat, so position order (the only order information of the map) is lost",
 "RC-50RENUM": "field 50A/59F numbered lines: the line numbers written are not checked / are renumbered on output",
}

RULES = [
 (r"^C06\|.*\|16digits$", "RC-F64", None),
 (r"^C06\|.*\|too-long-accepted$", "RC-NDLEN", None),
 (r"^C01\|MT\d+\|content-changed\|25$", "RC-25SLASH", "C01|*|content-changed|25"),
 (r"^C01\|MT\d+\|content-changed\|(5[2-57]B)$", "RC-OPTB", r"C01|*|content-changed|\1"),
 (r"^C01\|MT942\|reordered\|13D\|move$", "RC-942-13D", None),
 (r"^C02\|field\|Field25(NoOption|A|AccountIdentification)\|", "RC-25SLASH", None),
 (r"^C04\|MT103\|E17\|missing$", "RC-E17", None),
 (r"^C04\|MT(104|107|204)\|(C01|D21|D80)\|", "RC-TOL", None),
 (r"^C04\|MT107\|C02\|missing$", "RC-107C02", None),
 (r"^C04\|MT935\|T14\|spurious$", "RC-T14", None),
 (r"^C09\|MT\d+\|deleted:[0-9A-Z]+@(later|first)-(opener|inner)\|(no-tag|no-type|wrong-tag:.*)$", "RC-SEQERR", None),
 (r"^C09\|MT210\|deleted:32B\|accepted$", "RC-EMPTYSEQ", None),
 (r"^C08\|msg\|MT(210|942)\|empty-placeholder\|$", "RC-EMPTYSEQ", None),
 (r"^C11\|Field11[RS]?\|invalid-accepted\|not-six-digits$", "RC-11TRAIL", None),
 (r"^C17\|MT20[25]\|method\|.*\|119:", "RC-119", None),
 (r"^C17\|MT\d+\|method\|implied-(reject|return)-got-normal\|control$", "RC-MUR", None),
 (r"^C17\|consistency\|", "RC-RJT", None),
 (r"^C10\|(direct\|)?block5\|(PDE|MRF)\|dropped$", "RC-B5STRUCT", None),
 (r"^C10\|(direct\|)?block3\|43[34]\|changed$", "RC-B3SLASH", None),
 (r"^C03\|field-not-reproduced\|(36)$", "RC-TRAIL", None),
 (r"^C03\|field-not-reproduced\|(5[2-57]B)$", "RC-OPTB", None),
 (r"^C08\|msg\|MT\d+\|publish-differs\|(5[2-57]B)$", "RC-OPTB", r"C08|msg|*|publish-differs|\1"),
 (r"^C08\|msg\|MT\d+\|publish-rejected\|empty-serialised:(5[2-57]B)$", "RC-OPTB", r"C08|msg|*|publish-rejected|empty-serialised:\1"),
 (r"^C16\|tokenise\|position-stamps-collide\|over-65536-fields$", "RC-POS16", None),
 (r"^C05\|Field\w+\|over-accept\|blank-line$", "RC-LINES", None),
 (r"^C05\|Field\w+\|over-accept\|(control-char|nonascii)$", "RC-XCHARS", None),
 (r"^C05\|Field\w+\|over-accept\|(stray-cr)$", "RC-XCHARS", r"C05|*|over-accept|\1"),
 (r"^C05\|Field5[2-57]B\|", "RC-OPTB", None),
 (r"^C05\|Field25(NoOption|A|P)\|", "RC-25SLASH", None),
 (r"^C05\|Field11[RS]?\|over-accept\|", "RC-11TRAIL", None),
 (r"^C05\|Field(50A|59F)\|(unfaithful|over-accept)\|", "RC-50RENUM", None),
 (r"^C05\|Field\w+\|over-accept\|at-(Num)?Lines-too-many(:[a-z-]+)?$", "RC-TRUNC", None),
 (r"^C05\|Field\w+\|over-accept\|empty$", "RC-EMPTY", None),
 (r"^C05\|Field\w+\|over-accept\|at-", "RC-TRAIL", None),
 (r"^C05\|Field\w+\|(under-accept|unfaithful|component-mismatch)\|", "RC-FIELDMISC", None),
]

def main():
    dirs = sys.argv[1:]
    seen = {}  # sig -> (prop, detail)
    for d in dirs:
        for f in sorted(glob.glob(os.path.join(d, "*.txt"))):
            for line in open(f, errors="replace"):
                if not line.startswith("DISCOVERED\t"):
                    continue
                parts = line.rstrip("\n").split("\t")
                if len(parts) < 4:
                    continue
                prop, sig, detail = parts[1], parts[2], parts[3]
                seen.setdefault(sig, (prop, detail))
    findings = {}
    untriaged = []
    for sig, (prop, detail) in sorted(seen.items()):
        for pat, rc, wild in RULES:
            m = re.match(pat, sig)
            if m:
                key = m.expand(wild) if wild else sig
                e = findings.setdefault(key, {"property": prop, "signature": key, "root_cause": rc, "what_fails": ROOT_CAUSES[rc].split(":")[0][:160], "example": detail[:400]})
                break
        else:
            untriaged.append((sig, detail))
    # one root cause, five sibling tags: an option-B party field (52B/53B/54B/55B/57B) whose content is empty is
    # accepted and written back as an empty field, while publish_mt drops it (all its members are null). Whichever
    # of the five a census happens to hit, all five are the same recorded defect.
    optb = [k for k in findings if k.startswith("C08|msg|*|publish-differs|5")]
    if optb:
        e0 = findings[optb[0]]
        for t in ("52B", "53B", "54B", "55B", "57B"):
            k = f"C08|msg|*|publish-differs|{t}"
            findings.setdefault(k, dict(e0, signature=k))
            # the same situation where the slot is mandatory (e.g. 57a of MT200): publish_mt cannot place the
            # dropped field and rejects the JSON instead of writing a different text
            k = f"C08|msg|*|publish-rejected|empty-serialised:{t}"
            findings.setdefault(k, dict(e0, signature=k))
    path = "/verif/known_findings.json"
    old = json.load(open(path)) if os.path.exists(path) else {}
    out = {
        "comment": "Genuine defects of the tree that are recorded rather than repaired (see DESIGN.md, 'Known findings'). Committed; never written at run time. A `*` segment in a signature matches any value (cross-cutting root cause). 'fixed' entries document repairs and suppress nothing.",
        "root_causes": ROOT_CAUSES,
        "fixed": old.get("fixed", []),
        "findings": sorted(findings.values(), key=lambda e: (e["property"], e["signature"])),
    }
    json.dump(out, open(path, "w"), indent=1, ensure_ascii=False)
    print(f"{len(out['findings'])} known findings written ({len(seen)} signatures observed)")
    for sig, detail in untriaged:
        print("UNTRIAGED", sig, "::", detail[:200])

main()
