#!/bin/bash
# try_mutant2.sh <patch.diff> <props...> : like try_mutant.sh, but builds into a separate target directory
# (harness/target-trial), so that a census running from harness/target is not disturbed.
P=$(realpath "$1"); shift
export CARGO_TARGET_DIR=/verif/harness/target-trial
cd /repo && git apply "$P" || { echo "patch does not apply to /repo"; exit 2; }
(cd /verif/harness && cargo build --release --offline >/dev/null 2>&1) || { echo "build failed"; git -C /repo checkout -- .; exit 2; }
for p in "$@"; do
  out=$(cd /verif && VERIF_TIER=${TIER:-quick} $CARGO_TARGET_DIR/release/swiftmt-check $p --tier ${TIER:-quick} 2>&1); rc=$?
  echo "$p exit=$rc $(echo "$out" | grep -c '^VIOLATION') violations"
  echo "$out" | grep '^VIOLATION' | cut -c1-260 | head -4
done
git -C /repo checkout -- .
