#!/bin/bash
OUT=${1:-/tmp/census_th}; shift
SEEDS=${@:-"1 2"}
mkdir -p "$OUT"
BIN=/verif/harness/target/release/swiftmt-check
for p in C01 C02 C03 C04 C05 C06 C07 C08 C09 C10 C11 C12 C13 C14 C15 C16 C17; do
  for s in $SEEDS; do
    /usr/bin/time -f "$p seed=$s %es" -a -o "$OUT/times.txt" env VERIF_IGNORE_KNOWN=1 VERIF_SEED=$s timeout 7200 $BIN $p --tier thorough --discover > "$OUT/$p.thorough.$s.txt" 2>/dev/null
  done
done
