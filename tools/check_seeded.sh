#!/bin/bash
# check_seeded.sh [ids...] : for every kept seeded change, apply it to /repo, run the quick checks its meta.json
# lists under caught_by_quick_checks, undo it, and report whether each still raises a VIOLATION.
# A patch that no longer applies cleanly is re-based with `git apply --3way` (the stored patch.diff is rewritten
# when that works). /repo must be clean before and is clean afterwards. TRIAL_TARGET=<dir> builds into a separate
# target directory and runs the binary from there (the regular harness/target is then left alone).
cd /verif || exit 2
[ -z "$(git -C /repo status --porcelain)" ] || { echo "/repo is not clean"; exit 2; }
ids=${@:-$(ls seeded)}
fail=0
for id in $ids; do
  d=/verif/seeded/$id
  [ -f $d/patch.diff ] || continue
  if [ "$(jq -r '.neutralised // empty' $d/meta.json)" != "" ]; then echo "$id: neutralised by a later repair (see meta.json); skipped"; continue; fi
  if ! git -C /repo apply --check $d/patch.diff 2>/dev/null; then
    if git -C /repo apply --3way $d/patch.diff >/dev/null 2>&1 && [ -z "$(git -C /repo diff --name-only --diff-filter=U)" ]; then
      git -C /repo diff HEAD > $d/patch.diff.new; git -C /repo reset -q --hard HEAD
      mv $d/patch.diff.new $d/patch.diff; echo "$id: patch re-based"
    else
      git -C /repo reset -q --hard HEAD; echo "$id: PATCH-NO-LONGER-APPLIES"; fail=1; continue
    fi
  fi
  git -C /repo apply $d/patch.diff
  caught=""; missed=""
  for p in $(jq -r '.caught_by_quick_checks[]' $d/meta.json); do
    if [ -n "$TRIAL_TARGET" ]; then
      (cd /verif/harness && CARGO_TARGET_DIR=$TRIAL_TARGET cargo build --release --offline >/dev/null 2>&1) || { missed="$missed $p(build)"; continue; }
      out=$($TRIAL_TARGET/release/swiftmt-check $p --tier quick 2>&1); rc=$?
    else
      out=$(./check $p --tier quick 2>&1); rc=$?
    fi
    if [ $rc -eq 1 ] && echo "$out" | grep -q '^VIOLATION'; then caught="$caught $p"; else missed="$missed $p(rc=$rc)"; fi
  done
  git -C /repo checkout -- .
  if [ -n "$missed" ]; then echo "$id: MISSED by$missed (caught by:$caught)"; fail=1; else echo "$id: caught by$caught"; fi
done
# leave the harness built against the clean tree
if [ -z "$TRIAL_TARGET" ]; then (cd /verif/harness && cargo build --release --offline >/dev/null 2>&1); fi
exit $fail
