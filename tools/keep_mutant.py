#!/usr/bin/env python3
"""keep_mutant.py <src_dir> <seeded_id> <property> <needs> <caught_by> <notes>
Copies patch.diff / demo.rs / notes.md to /verif/seeded/<seeded_id>/ and writes meta.json."""
import sys, json, shutil, os
src, sid, prop, needs, caught, ran = sys.argv[1:7]
dst = f"/verif/seeded/{sid}"
os.makedirs(dst, exist_ok=True)
for f in ["patch.diff", "demo.rs", "notes.md"]:
    if os.path.exists(os.path.join(src, f)):
        shutil.copy(os.path.join(src, f), os.path.join(dst, f))
meta = {
    "id": sid,
    "breaks_property": prop,
    "needs_to_manifest": needs,
    "origin": "written by an independent sub-agent given only the property text and a scratch worktree (nothing from /verif)",
    "confirmed": "tools/confirm_mutant.sh: with the patch the unedited suite passes (274+1+13) and demo.rs fails; without the patch demo.rs passes",
    "caught_by_quick_checks": [c for c in caught.split(",") if c],
    "what_was_run": ran,
}
json.dump(meta, open(os.path.join(dst, "meta.json"), "w"), indent=1)
print("kept", dst)
