#!/bin/bash
# Runs every check (quick tier) under the given seeds on the current tree; prints any VIOLATION / non-zero exit.
SEEDS=${@:-"101 102 103 104"}
BIN=/verif/harness/target/release/swiftmt-check
bad=0
for s in $SEEDS; do
  for p in C01 C02 C03 C04 C05 C06 C07 C08 C09 C10 C11 C12 C13 C14 C15 C16 C17; do
    out=$(VERIF_SEED=$s $BIN $p 2>&1); rc=$?
    if [ $rc -ne 0 ] || echo "$out" | grep -q '^VIOLATION'; then
      bad=1; echo "seed=$s $p exit=$rc"; echo "$out" | grep '^VIOLATION' | cut -c1-300
    fi
  done
done
[ $bad -eq 0 ] && echo "ALL SILENT for seeds: $SEEDS"
