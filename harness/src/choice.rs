//! Choice-sequence source: every generator in this harness is a pure function of a
//! slice of `u32` choices. The slice itself is produced by proptest
//! (`vec(any::<u32>(), N)`), so proptest owns all randomness, shrinking (towards 0 =
//! first alternative / smallest size) and replay. The same decoders serve the
//! libFuzzer targets (bytes -> u32 choices).

pub struct Src<'a> {
    data: &'a [u32],
    pos: usize,
}

impl<'a> Src<'a> {
    pub fn new(data: &'a [u32]) -> Self {
        Src { data, pos: 0 }
    }
    #[inline]
    fn next(&mut self) -> u32 {
        let v = self.data.get(self.pos).copied().unwrap_or(0);
        self.pos += 1;
        v
    }
    /// Uniform-ish integer in 0..n (monotone in the raw choice so that shrinking the
    /// raw value shrinks the result).
    pub fn below(&mut self, n: usize) -> usize {
        if n <= 1 {
            // still consume one choice so that structure stays aligned under shrinking
            self.next();
            return 0;
        }
        ((self.next() as u64 * n as u64) >> 32) as usize
    }
    /// inclusive range
    pub fn range(&mut self, lo: usize, hi: usize) -> usize {
        if hi <= lo {
            self.next();
            return lo;
        }
        lo + self.below(hi - lo + 1)
    }
    /// true with probability num/den; raw 0 => false
    pub fn chance(&mut self, num: u32, den: u32) -> bool {
        let v = self.below(den as usize) as u32;
        v >= den - num
    }
    pub fn flip(&mut self) -> bool {
        self.chance(1, 2)
    }
    pub fn pick<'b, T>(&mut self, xs: &'b [T]) -> &'b T {
        &xs[self.below(xs.len())]
    }
    pub fn pick_char(&mut self, alphabet: &str) -> char {
        let n = alphabet.chars().count();
        alphabet.chars().nth(self.below(n)).unwrap()
    }
    pub fn raw(&mut self) -> u32 {
        self.next()
    }
    pub fn consumed(&self) -> usize {
        self.pos
    }
    /// length with boundary bias: min, max, max-1, or uniform
    pub fn len_biased(&mut self, min: usize, max: usize) -> usize {
        if max <= min {
            self.next();
            return min;
        }
        match self.below(8) {
            0 | 1 | 2 | 3 => self.range(min, max),
            4 => min,
            5 => max,
            6 => max - 1,
            _ => (min + 1).min(max),
        }
    }
}

/// splitmix64, used only to derive per-shard seeds from VERIF_SEED
pub fn splitmix(mut x: u64) -> u64 {
    x = x.wrapping_add(0x9E3779B97F4A7C15);
    let mut z = x;
    z = (z ^ (z >> 30)).wrapping_mul(0xBF58476D1CE4E5B9);
    z = (z ^ (z >> 27)).wrapping_mul(0x94D049BB133111EB);
    z ^ (z >> 31)
}

pub fn fnv64(bytes: &[u8]) -> u64 {
    let mut h: u64 = 0xcbf29ce484222325;
    for b in bytes {
        h ^= *b as u64;
        h = h.wrapping_mul(0x100000001b3);
    }
    h
}
