//! Field-level generation, near-miss mutation, faithfulness and component checks
//! shared by C02, C05, C06, C08, C11, C14 and the field half of C07.

use crate::choice::Src;
use crate::lib_api::{FieldVal, field_ops};
use crate::refs::{DecStr, approx_eq};
use crate::spec::{Comp, FieldSpec, Verdict, field_specs};
use serde::{Deserialize, Serialize};
use serde_json::Value;
use std::sync::OnceLock;

pub fn specs() -> &'static Vec<FieldSpec> {
    static S: OnceLock<Vec<FieldSpec>> = OnceLock::new();
    S.get_or_init(field_specs)
}

pub fn spec_of(ty: &str) -> &'static FieldSpec {
    specs()
        .iter()
        .find(|s| s.ty == ty)
        .unwrap_or_else(|| panic!("no spec for {ty}"))
}

pub fn spec_of_tag(tag: &str) -> Option<&'static FieldSpec> {
    specs().iter().find(|s| s.tag == tag)
}

/// enum families: (enum type, base tag, [(letter, concrete type)])
pub const FAMILIES: &[(&str, &str, &[(&str, &str)])] = &[
    (
        "Field25AccountIdentification",
        "25",
        &[("", "Field25NoOption"), ("P", "Field25P")],
    ),
    (
        "Field32",
        "32",
        &[
            ("A", "Field32A"),
            ("B", "Field32B"),
            ("C", "Field32C"),
            ("D", "Field32D"),
        ],
    ),
    ("Field32AB", "32", &[("A", "Field32A"), ("B", "Field32B")]),
    (
        "Field32AmountCD",
        "32",
        &[("C", "Field32C"), ("D", "Field32D")],
    ),
    (
        "Field50InstructingParty",
        "50",
        &[("C", "Field50C"), ("L", "Field50L")],
    ),
    (
        "Field50OrderingCustomerFGH",
        "50",
        &[("F", "Field50F"), ("G", "Field50G"), ("H", "Field50H")],
    ),
    (
        "Field50OrderingCustomerAFK",
        "50",
        &[("A", "Field50A"), ("F", "Field50F"), ("K", "Field50K")],
    ),
    (
        "Field50OrderingCustomerNCF",
        "50",
        &[
            ("", "Field50NoOption"),
            ("C", "Field50C"),
            ("F", "Field50F"),
        ],
    ),
    (
        "Field50Creditor",
        "50",
        &[("A", "Field50A"), ("K", "Field50K")],
    ),
    (
        "Field52AccountServicingInstitution",
        "52",
        &[("A", "Field52A"), ("C", "Field52C")],
    ),
    (
        "Field52OrderingInstitution",
        "52",
        &[("A", "Field52A"), ("D", "Field52D")],
    ),
    (
        "Field52CreditorBank",
        "52",
        &[("A", "Field52A"), ("C", "Field52C"), ("D", "Field52D")],
    ),
    (
        "Field52DrawerBank",
        "52",
        &[("A", "Field52A"), ("B", "Field52B"), ("D", "Field52D")],
    ),
    (
        "Field53SenderCorrespondent",
        "53",
        &[("A", "Field53A"), ("B", "Field53B"), ("D", "Field53D")],
    ),
    (
        "Field54ReceiverCorrespondent",
        "54",
        &[("A", "Field54A"), ("B", "Field54B"), ("D", "Field54D")],
    ),
    (
        "Field55ThirdReimbursementInstitution",
        "55",
        &[("A", "Field55A"), ("B", "Field55B"), ("D", "Field55D")],
    ),
    (
        "Field56Intermediary",
        "56",
        &[("A", "Field56A"), ("C", "Field56C"), ("D", "Field56D")],
    ),
    (
        "Field56IntermediaryAD",
        "56",
        &[("A", "Field56A"), ("D", "Field56D")],
    ),
    (
        "Field57",
        "57",
        &[
            ("A", "Field57A"),
            ("B", "Field57B"),
            ("C", "Field57C"),
            ("D", "Field57D"),
        ],
    ),
    (
        "Field57DebtInstitution",
        "57",
        &[("A", "Field57A"), ("B", "Field57B"), ("D", "Field57D")],
    ),
    ("Field58", "58", &[("A", "Field58A"), ("D", "Field58D")]),
    (
        "Field59",
        "59",
        &[
            ("A", "Field59A"),
            ("F", "Field59F"),
            ("", "Field59NoOption"),
        ],
    ),
    (
        "Field59Debtor",
        "59",
        &[("A", "Field59A"), ("", "Field59NoOption")],
    ),
    ("Field60", "60", &[("F", "Field60F"), ("M", "Field60M")]),
    ("Field62", "62", &[("F", "Field62F"), ("M", "Field62M")]),
];

#[derive(Clone, Debug, Serialize, Deserialize)]
pub struct FieldCase {
    pub ty: String,
    pub content: String,
    /// what produced it: "valid", a mutation class, or "random:<alphabet>"
    pub origin: String,
    /// components written by the generator (only for origin == "valid")
    pub comps: Vec<Comp>,
}

pub fn gen_valid(ty: &str, src: &mut Src) -> FieldCase {
    let sp = spec_of(ty);
    let out = sp.g.generate(src);
    FieldCase {
        ty: ty.to_string(),
        content: out.text,
        origin: "valid".into(),
        comps: out.comps,
    }
}

const SUBST: &[(&str, &str)] = &[
    ("lower", "q"),
    ("digit", "7"),
    ("upper", "Q"),
    ("space", " "),
    ("tilde", "~"),
    ("brace", "{"),
    ("nonascii2", "é"),
    ("nonascii3", "€"),
    ("arabic-digit", "٣"),
    ("fullwidth-digit", "５"),
    ("slash", "/"),
    ("colon", ":"),
    ("comma", ","),
    ("tab", "\t"),
    ("nul", "\u{0}"),
    ("nonascii4", "𝟙"),
];

pub const BAD_DATES: &[(&str, &str)] = &[
    ("month13", "241301"),
    ("day32", "240132"),
    ("feb30", "240230"),
    ("day00", "240100"),
    ("month00", "240010"),
    ("signed", "+1+2+3"),
    ("spaced", " 40101"),
    ("feb29-nonleap", "230229"),
    ("apr31", "240431"),
    ("arabic", "٢٤٠١٠١"),
    ("short", "24011"),
];

pub const BAD_AMOUNTS: &[(&str, &str)] = &[
    ("nan", "NaN"),
    ("inf", "inf"),
    ("neg-inf", "-inf"),
    ("infinity", "infinity"),
    ("exp", "1e3"),
    ("exp-neg", "1E-2"),
    ("plus", "+5"),
    ("minus", "-5"),
    ("two-commas", "1,2,3"),
    ("lead-space", " 5"),
    ("trail-space", "5 "),
    ("hex", "0x1"),
    ("arabic", "٣,٥"),
    ("empty", ""),
    ("only-comma", ","),
    ("dot-and-comma", "1.000,5"),
    ("underscore", "1_000"),
    ("too-long", "1234567890123456789,12"),
    ("neg-zero", "-0"),
];

/// Near-miss mutation of a valid case. The verdict is computed afterwards by the
/// acceptor, so a mutation does not have to produce an invalid string.
pub fn mutate(ty: &str, src: &mut Src) -> FieldCase {
    let sp = spec_of(ty);
    let out = sp.g.generate(src);
    let mut text = out.text.clone();
    let spans = out.spans.clone();
    let origin: String;
    let pick_span = |src: &mut Src| -> Option<(usize, usize, String)> {
        if spans.is_empty() {
            None
        } else {
            Some(spans[src.below(spans.len())].clone())
        }
    };
    match src.below(12) {
        0 => {
            // lengthen a part beyond its maximum
            if let Some((a, b, l)) = pick_span(src) {
                let part = text[a..b].to_string();
                let last = part.chars().last().unwrap_or('X');
                let last = if last == '\n' { 'X' } else { last };
                let extra = *src.pick(&[1usize, 2, 5, 20, 40]);
                // make the last line of the part longer
                let ins: String = std::iter::repeat(last).take(extra).collect();
                text.insert_str(b, &ins);
                origin = format!("lengthen:{l}");
            } else {
                origin = "noop".into();
            }
        }
        1 => {
            if let Some((a, b, l)) = pick_span(src) {
                let cut = match src.below(3) {
                    0 => b - a,
                    1 => 1.min(b - a),
                    _ => (b - a) / 2,
                };
                // remove `cut` bytes from the end of the span (ASCII by construction)
                text.replace_range(b - cut..b, "");
                origin = format!("shorten:{l}");
            } else {
                origin = "noop".into();
            }
        }
        2 | 3 => {
            if let Some((a, b, l)) = pick_span(src) {
                let (name, rep) = *src.pick(SUBST);
                let off = match src.below(3) {
                    0 => a,
                    1 => b - 1,
                    _ => a + (b - a) / 2,
                };
                text.replace_range(off..off + 1, rep);
                origin = format!("subst-{name}:{l}");
            } else {
                origin = "noop".into();
            }
        }
        4 => {
            let (n, t) = *src.pick(&[
                ("alpha", "XYZ"),
                ("digits", "123"),
                ("slash", "/"),
                ("space", " "),
                (
                    "long",
                    "ABCDEFGHIJKLMNOPQRSTUVWXYZABCDEFGHIJKLMNOPQRSTUVWXYZ",
                ),
            ]);
            text.push_str(t);
            origin = format!("trailing-{n}");
        }
        5 => {
            let k = *src.pick(&[1usize, 2, 5, 40]);
            for i in 0..k {
                text.push_str(&format!("\nEXTRA LINE {i}"));
            }
            origin = format!("extra-lines-{}", if k >= 5 { "many" } else { "few" });
        }
        6 => {
            text = format!("LEADING LINE\n{text}");
            origin = "leading-line".into();
        }
        7 => {
            // blank line / trailing newline / leading newline
            match src.below(3) {
                0 => {
                    if let Some(i) = text.find('\n') {
                        text.insert(i, '\n');
                        origin = "blank-line-inside".into();
                    } else {
                        text.push('\n');
                        origin = "trailing-newline".into();
                    }
                }
                1 => {
                    text.push('\n');
                    origin = "trailing-newline".into();
                }
                _ => {
                    text.insert(0, '\n');
                    origin = "leading-newline".into();
                }
            }
        }
        8 => {
            if let Some((a, b, _)) = spans.iter().find(|s| s.2 == "Date6").cloned() {
                let (n, d) = *src.pick(BAD_DATES);
                text.replace_range(a..b, d);
                origin = format!("bad-date-{n}");
            } else {
                text.clear();
                origin = "empty".into();
            }
        }
        9 => {
            if let Some((a, b, _)) = spans.iter().find(|s| s.2.starts_with("Amount")).cloned() {
                let (n, d) = *src.pick(BAD_AMOUNTS);
                text.replace_range(a..b, d);
                origin = format!("bad-amount-{n}");
            } else if let Some((a, b, _)) = spans.iter().find(|s| s.2 == "Bic").cloned() {
                let (n, d) = *src.pick(&[
                    ("len7", "ABCDEF1"),
                    ("len9", "ABCDEFG12"),
                    ("len10", "ABCDEFG123"),
                    ("len12", "ABCDEFGH1234"),
                    ("digit-in-bank", "1BCDDEFF"),
                    ("lower", "deutdeff"),
                    ("punct", "DEUT-EFF"),
                ]);
                text.replace_range(a..b, d);
                origin = format!("bad-bic-{n}");
            } else {
                text.clear();
                origin = "empty".into();
            }
        }
        10 => {
            // delete or duplicate one char anywhere
            if !text.is_empty() {
                let i = src.below(text.len());
                if src.flip() {
                    text.remove(i);
                    origin = "delete-char".into();
                } else {
                    let c = text.as_bytes()[i] as char;
                    text.insert(i, c);
                    origin = "dup-char".into();
                }
            } else {
                origin = "noop".into();
            }
        }
        _ => {
            // CRLF line endings inside the content
            text = text.replace('\n', "\r\n");
            origin = "crlf".into();
        }
    }
    FieldCase {
        ty: ty.to_string(),
        content: text,
        origin,
        comps: Vec::new(),
    }
}

pub fn random_content(ty: &str, src: &mut Src) -> FieldCase {
    const ALPHABETS: &[(&str, &str)] = &[
        ("swift", "ABCDEFGHIJKLMNOPQRSTUVWXYZ0123456789/-?:().,'+ \n"),
        ("digits", "0123456789,./\n"),
        (
            "ascii",
            " !\"#$%&'()*+,-./0123456789:;<=>?@ABCXYZ[\\]^_`abcxyz{|}~\n\r",
        ),
        ("nonascii", "AB12/é€٣５𝟙\u{301}\n"),
        ("struct", "/\n:,-+ABCD12"),
    ];
    let (name, alpha) = *src.pick(ALPHABETS);
    let n = src.len_biased(0, 48);
    let mut s = String::new();
    for _ in 0..n {
        s.push(src.pick_char(alpha));
    }
    FieldCase {
        ty: ty.to_string(),
        content: s,
        origin: format!("random-{name}"),
        comps: Vec::new(),
    }
}

pub fn parse_case(c: &FieldCase) -> crate::lib_api::LibResult<FieldVal> {
    (field_ops(&c.ty).parse)(&c.content)
}

/// content part of a `:TAG:content` string
pub fn split_swift(s: &str) -> Option<(String, String)> {
    let r = s.strip_prefix(':')?;
    let i = r.find(':')?;
    Some((r[..i].to_string(), r[i + 1..].to_string()))
}

/// `Ok(v)` must reproduce the input content (nothing ignored, truncated, renumbered).
pub fn faithful(input: &str, v: &FieldVal) -> Result<(), String> {
    match split_swift(&v.swift) {
        None => Err(format!(
            "to_swift_string has no :TAG: prefix: {:?}",
            v.swift
        )),
        Some((_, out)) => {
            if approx_eq(input, &out) {
                Ok(())
            } else {
                Err(format!("input {:?} re-emitted as {:?}", input, out))
            }
        }
    }
}

pub fn leaves(v: &Value, out: &mut Vec<Value>) {
    match v {
        Value::Null => {}
        Value::Array(a) => a.iter().for_each(|x| leaves(x, out)),
        Value::Object(o) => o.values().for_each(|x| leaves(x, out)),
        other => out.push(other.clone()),
    }
}

fn comp_matches(c: &Comp, leaf: &Value) -> bool {
    match (c, leaf) {
        (Comp::Text(s), Value::String(l)) => s == l,
        (Comp::Slashed(s), Value::String(l)) => l == s || l.strip_prefix('/') == Some(s.as_str()),
        (Comp::Num(s), Value::Number(n)) => {
            // the sign is carried by a separate written flag (37H `N`): compare magnitudes
            let t = n.to_string();
            DecStr::parse(s).is_some()
                && DecStr::from_float_text(t.trim_start_matches('-')) == DecStr::parse(s)
        }
        (Comp::Num(s), Value::String(l)) => {
            s == l || (DecStr::parse(l).is_some() && DecStr::parse(l) == DecStr::parse(s))
        }
        (Comp::Date6(s), Value::String(l)) => {
            if l == s {
                return true;
            }
            // ISO yyyy-mm-dd; century as the library documents its window: 00-49 -> 20yy, 50-99 -> 19yy
            let b = l.as_bytes();
            let century = if s.as_bytes()[0] <= b'4' { "20" } else { "19" };
            l.len() == 10
                && b[4] == b'-'
                && b[7] == b'-'
                && l[0..2] == *century
                && l[2..4] == s[0..2]
                && l[5..7] == s[2..4]
                && l[8..10] == s[4..6]
        }
        (Comp::Time4(s), Value::String(l)) => {
            l == s || (l.len() >= 5 && l[0..2] == s[0..2] && &l[2..3] == ":" && l[3..5] == s[2..4])
        }
        (Comp::Numbered(n, s), Value::String(l)) => l == s || *l == format!("{n}/{s}"),
        (Comp::Flag(s), Value::String(l)) => s == l,
        (Comp::Flag(_), Value::Bool(b)) => *b,
        _ => false,
    }
}

/// Every written component is exposed by exactly one leaf, and there is no other
/// non-boolean leaf.
pub fn components_exposed(comps: &[Comp], json: &Value) -> Result<(), String> {
    let mut ls = Vec::new();
    leaves(json, &mut ls);
    let mut used = vec![false; ls.len()];
    let mut matched = vec![false; comps.len()];
    // pass 1: the most specific reading of each component (a slashed component with its
    // slash, everything else verbatim); pass 2: the relaxed readings
    for pass in 0..2 {
        for (ci, c) in comps.iter().enumerate() {
            if matched[ci] {
                continue;
            }
            for (i, l) in ls.iter().enumerate() {
                if used[i] {
                    continue;
                }
                let ok = if pass == 0 {
                    match (c, l) {
                        (Comp::Slashed(s), Value::String(t)) => {
                            t.strip_prefix('/') == Some(s.as_str())
                        }
                        (Comp::Numbered(n, s), Value::String(t)) => *t == format!("{n}/{s}"),
                        (Comp::Text(s), Value::String(t)) => s == t,
                        _ => false,
                    }
                } else {
                    comp_matches(c, l)
                };
                if ok {
                    used[i] = true;
                    matched[ci] = true;
                    break;
                }
            }
        }
    }
    if let Some(ci) = matched.iter().position(|m| !m) {
        return Err(format!("component {:?} not exposed in {}", comps[ci], json));
    }
    for (i, l) in ls.iter().enumerate() {
        if !used[i] && !matches!(l, Value::Bool(false)) {
            return Err(format!(
                "model exposes {} which was not written (components {:?})",
                l, comps
            ));
        }
    }
    Ok(())
}

pub fn verdict_of(c: &FieldCase) -> Verdict {
    spec_of(&c.ty).g.verdict(&c.content)
}

/// Deterministic, systematic near-miss grid for one valid generated content: every part x
/// every mutation class (the seeded `mutate` only samples this space).
pub fn all_mutations(ty: &str, out: &crate::spec::GenOut) -> Vec<FieldCase> {
    let mut v: Vec<(String, String)> = Vec::new();
    let text = &out.text;
    for (a, b, l) in &out.spans {
        let (a, b) = (*a, *b);
        let part = &text[a..b];
        let last = part.chars().last().filter(|c| *c != '\n').unwrap_or('X');
        for extra in [1usize, 2, 20] {
            let mut t = text.clone();
            t.insert_str(b, &std::iter::repeat(last).take(extra).collect::<String>());
            v.push((format!("lengthen:{l}"), t));
        }
        // boundary-exact: fill the part (its last line) up to its documented maximum, and one beyond
        if let Some(max) = part_max(l) {
            let cur = part.rsplit('\n').next().unwrap_or("").chars().count();
            for target in [max, max + 1] {
                if target > cur {
                    let mut t = text.clone();
                    t.insert_str(
                        b,
                        &std::iter::repeat(if last == ' ' || last == '/' {
                            'X'
                        } else {
                            last
                        })
                        .take(target - cur)
                        .collect::<String>(),
                    );
                    v.push((
                        format!(
                            "{}:{l}",
                            if target == max {
                                "fill-to-max"
                            } else {
                                "fill-to-max+1"
                            }
                        ),
                        t,
                    ));
                }
            }
        }
        // line count boundary for k*Nx parts
        if let Some((max_lines, _)) = lines_dims(l) {
            let cur = part.split('\n').count();
            for target in [max_lines, max_lines + 1] {
                if target > cur {
                    let mut t = text.clone();
                    t.insert_str(b, &"\nLINE".repeat(target - cur));
                    v.push((
                        format!(
                            "{}:{l}",
                            if target == max_lines {
                                "lines-to-max"
                            } else {
                                "lines-to-max+1"
                            }
                        ),
                        t,
                    ));
                }
            }
        }
        // the whole part gone together with the line break in front of it (a party line left on its own)
        if a > 0 && text.as_bytes()[a - 1] == b'\n' {
            let mut t = text.clone();
            t.replace_range(a - 1..b, "");
            v.push((format!("drop-part-and-line-break:{l}"), t));
        }
        for cut in [b - a, 1.min(b - a), (b - a) / 2] {
            if cut > 0 {
                let mut t = text.clone();
                t.replace_range(b - cut..b, "");
                v.push((format!("shorten:{l}"), t));
            }
        }
        for (name, rep) in SUBST {
            for off in [a, b - 1, a + (b - a) / 2] {
                let mut t = text.clone();
                t.replace_range(off..off + 1, rep);
                v.push((format!("subst-{name}:{l}"), t));
            }
        }
        // every position of the part (up to 40) with a reduced set of foreign characters:
        // a check that forgets one position of a fixed-shape component must not escape
        for off in a..b.min(a + 40) {
            if text.as_bytes()[off] == b'\n' {
                continue;
            }
            for (name, rep) in [("dash", "-"), ("plus", "+"), ("lower", "q"), ("space", " "), ("nonascii2", "é")] {
                let mut t = text.clone();
                t.replace_range(off..off + 1, rep);
                v.push((format!("subst-{name}@{}:{l}", off - a), t));
            }
        }
        if l == "Mmdd" {
            for (n, d) in [("feb30", "0230"), ("apr31", "0431"), ("month13", "1301"), ("day32", "0132"), ("zero", "0000"), ("nov31", "1131")] {
                let mut t = text.clone();
                t.replace_range(a..b, d);
                v.push((format!("bad-mmdd-{n}"), t));
            }
        }
        if l == "Date6" {
            for (n, d) in BAD_DATES {
                let mut t = text.clone();
                t.replace_range(a..b, d);
                v.push((format!("bad-date-{n}"), t));
            }
        }
        if l.starts_with("Amount") {
            for (n, d) in BAD_AMOUNTS {
                let mut t = text.clone();
                t.replace_range(a..b, d);
                v.push((format!("bad-amount-{n}"), t));
            }
        }
        if l == "PartyId" {
            // every form the shared helper documents (/1!a/34x, /2!a/34x, /34x), one character too long
            let id35 = "ABCDEFGHIJKLMNOPQRSTUVWXYZ123456789";
            for (n, d) in [
                ("code1-id35", format!("/C/{id35}")),
                ("code2-id35", format!("/CH/{id35}")),
                ("digit-code-id35", format!("/1/{id35}")),
                ("plain-37", format!("/{id35}XY")),
            ] {
                let mut t = text.clone();
                t.replace_range(a..b, &d);
                v.push((format!("bad-party-id-{n}"), t));
            }
        }
        if l == "Bic" {
            for (n, d) in [
                ("len7", "ABCDEF1"),
                ("len9", "ABCDEFG12"),
                ("len10", "ABCDEFG123"),
                ("len12", "ABCDEFGH1234"),
                ("digit-in-bank", "1BCDDEFF"),
                ("lower", "deutdeff"),
                ("punct", "DEUT-EFF"),
            ] {
                let mut t = text.clone();
                t.replace_range(a..b, d);
                v.push((format!("bad-bic-{n}"), t));
            }
        }
    }
    // the content behind one, two or three further slashes (a delimiter stripped once too often hides
    // over-long or mis-shaped content)
    for k in 1..=3usize {
        v.push((format!("prefix-slashes-{k}"), format!("{}{text}", "/".repeat(k))));
    }
    // digits that may be a numeric sub-component set to zero
    {
        let bytes = text.as_bytes();
        let mut i = 0;
        while i + 1 < bytes.len() {
            if bytes[i].is_ascii_digit() && bytes[i + 1].is_ascii_digit() {
                let mut j = i;
                while j < bytes.len() && bytes[j].is_ascii_digit() {
                    j += 1;
                }
                if j - i <= 3 {
                    let mut t = text.clone();
                    t.replace_range(i..j, &"0".repeat(j - i));
                    v.push((format!("zero-digits-at-{i}"), t));
                }
                i = j;
            } else {
                i += 1;
            }
        }
    }
    for (n, t) in [
        ("alpha", "XYZ"),
        ("digits", "123"),
        ("slash", "/"),
        ("space", " "),
        (
            "long",
            "ABCDEFGHIJKLMNOPQRSTUVWXYZABCDEFGHIJKLMNOPQRSTUVWXYZ",
        ),
    ] {
        v.push((format!("trailing-{n}"), format!("{text}{t}")));
    }
    for k in [1usize, 2, 5, 40] {
        let mut t = text.clone();
        for i in 0..k {
            t.push_str(&format!("\nEXTRA LINE {i}"));
        }
        v.push((
            format!("extra-lines-{}", if k >= 5 { "many" } else { "few" }),
            t,
        ));
    }
    v.push(("leading-line".into(), format!("LEADING LINE\n{text}")));
    if let Some(i) = text.find('\n') {
        let mut t = text.clone();
        t.insert(i, '\n');
        v.push(("blank-line-inside".into(), t));
    }
    v.push(("leading-newline".into(), format!("\n{text}")));
    v.push(("crlf".into(), text.replace('\n', "\r\n")));
    v.push(("empty".into(), String::new()));
    for i in 0..text.len() {
        let mut t = text.clone();
        t.remove(i);
        v.push(("delete-char".into(), t));
    }
    v.into_iter()
        .map(|(origin, content)| FieldCase {
            ty: ty.to_string(),
            content,
            origin,
            comps: Vec::new(),
        })
        .collect()
}

/// documented maximum length of a part, from its span label (`RunX1-16`, `Uint5`, `Amount15`, `Lines4x35`, ...)
pub fn part_max(label: &str) -> Option<usize> {
    if let Some(r) = label.strip_prefix("Run") {
        return r.rsplit('-').next()?.parse().ok();
    }
    if let Some(r) = label.strip_prefix("Uint") {
        return r.parse().ok();
    }
    if let Some(r) = label.strip_prefix("Amount") {
        return r.parse().ok();
    }
    if let Some((_, w)) = lines_dims(label) {
        return Some(w);
    }
    match label {
        "SlashRun" => Some(35),
        "PartyId" => Some(37),
        "Ref" => Some(16),
        "AlphaStartRun" => Some(11),
        _ => None,
    }
}

pub fn lines_dims(label: &str) -> Option<(usize, usize)> {
    let r = label.strip_prefix("Lines")?;
    let (a, b) = r.split_once('x')?;
    Some((a.parse().ok()?, b.parse().ok()?))
}
