use swiftmt_verif::driver::{Ctx, Tier};
use swiftmt_verif::props;

fn usage() -> ! {
    eprintln!("usage: swiftmt-check <ID> [--tier quick|thorough] [--replay FILE] [--discover]");
    std::process::exit(2);
}

fn main() {
    swiftmt_verif::lib_api::install_panic_hook();
    let args: Vec<String> = std::env::args().skip(1).collect();
    if args.is_empty() {
        usage();
    }
    let id = args[0].clone();
    if id == "probe" {
        probe(&args[1..]);
        return;
    }
    if id == "audit-options" {
        audit_options();
        return;
    }
    if id == "fuzz-artifact" {
        // fuzz-artifact <target> <file>: decode a libFuzzer artifact into the C07 replay case (JSON on stdout)
        let target = args.get(1).cloned().unwrap_or_default();
        let data = std::fs::read(args.get(2).cloned().unwrap_or_default()).unwrap_or_default();
        let case = swiftmt_verif::props::c07::decode_fuzz_input(&target, &data);
        println!("{}", serde_json::json!({"property": "C07", "sub": "fuzz", "signature": "", "case": case}));
        return;
    }
    let mut tier = match std::env::var("VERIF_TIER").as_deref() {
        Ok("thorough") => Tier::Thorough,
        _ => Tier::Quick,
    };
    let mut replay: Option<String> = None;
    let mut discover = false;
    let mut i = 1;
    while i < args.len() {
        match args[i].as_str() {
            "--tier" => {
                i += 1;
                tier = match args.get(i).map(|s| s.as_str()) {
                    Some("quick") => Tier::Quick,
                    Some("thorough") => Tier::Thorough,
                    _ => usage(),
                };
            }
            "--replay" => {
                i += 1;
                replay = Some(args.get(i).cloned().unwrap_or_else(|| usage()));
            }
            "--discover" => discover = true,
            _ => usage(),
        }
        i += 1;
    }
    let seed: u64 = std::env::var("VERIF_SEED")
        .ok()
        .and_then(|s| s.trim().parse::<i64>().ok())
        .map(|v| v as u64)
        .unwrap_or(20251002);
    // watchdog: a check that overruns is inconclusive (exit 2), never a violation
    let limit = std::env::var("VERIF_WATCHDOG_S")
        .ok()
        .and_then(|s| s.parse().ok())
        .unwrap_or(if tier == Tier::Quick {
            1500u64
        } else {
            6 * 3600
        });
    std::thread::spawn(move || {
        std::thread::sleep(std::time::Duration::from_secs(limit));
        eprintln!("watchdog: time budget of {limit}s exceeded; inconclusive");
        std::process::exit(2);
    });
    if id == "C07" && std::env::var("VERIF_C07_WORKER").is_err() {
        std::process::exit(c07_supervise(&args, tier, seed, discover, replay.clone()));
    }
    let ctx = Ctx::new(&id, tier, seed, discover);
    if let Some(path) = replay {
        let txt = std::fs::read_to_string(&path).unwrap_or_else(|e| {
            eprintln!("cannot read {path}: {e}");
            std::process::exit(2)
        });
        let v: serde_json::Value = serde_json::from_str(&txt).expect("replay json");
        let sub = v["sub"].as_str().unwrap_or("").to_string();
        let vs = props::replay(&id, &ctx, &sub, &v["case"]);
        let mut bad = 0;
        for x in &vs {
            if ctx.known_key(&x.sig).is_some() {
                println!(
                    "KNOWN-FINDING: property={} {} {}",
                    id,
                    x.sig,
                    x.detail.replace('\n', "\\n")
                );
            } else {
                println!(
                    "VIOLATION property={} replay={} signature={} detail={}",
                    id,
                    path,
                    x.sig,
                    x.detail.replace('\n', "\\n")
                );
                bad += 1;
            }
        }
        if vs.is_empty() {
            println!("replay: property held on this case");
        }
        std::process::exit(if bad > 0 { 1 } else { 0 });
    }
    props::run(&id, &ctx);
    std::process::exit(ctx.finish());
}

fn probe(args: &[String]) {
    use swiftmt_verif::choice::{Src, splitmix};
    let mt = args.first().cloned().unwrap_or("103".into());
    let n: u64 = args.get(1).and_then(|s| s.parse().ok()).unwrap_or(1);
    for k in 0..n {
        let choices: Vec<u32> = (0..600).map(|i| splitmix(k * 1000 + i) as u32).collect();
        let mut src = Src::new(&choices);
        let m = swiftmt_verif::msgkit::gen_valid_msg(&mt, &mut src);
        let text = m.text(false, true);
        println!("---- text\n{}", text);
        match (swiftmt_verif::lib_api::msg_ops(&mt).parse_block4)(&text) {
            Ok(b) => {
                println!(
                    "---- json\n{}",
                    serde_json::to_string_pretty(&b.json).unwrap()
                );
                println!("---- mt_string\n{}", b.mt_string);
                println!(
                    "---- errs {:?}",
                    b.errs_all
                        .iter()
                        .map(|e| e.code.clone())
                        .collect::<Vec<_>>()
                );
            }
            Err(e) => println!("---- ERR {}", e.text()),
        }
    }
}

/// For every lettered slot of every layout: which option letters does the library accept there, and which
/// does the layout generate? (A development aid: the layouts must follow the library's own structs.)
fn audit_options() {
    use std::collections::{BTreeMap, BTreeSet};
    use swiftmt_verif::choice::{Src, splitmix};
    use swiftmt_verif::fieldkit::{gen_valid, spec_of_tag};
    let mut generated: BTreeMap<(String, String, usize), BTreeSet<String>> = BTreeMap::new();
    let mut accepted: BTreeMap<(String, String, usize), BTreeSet<String>> = BTreeMap::new();
    for ops in swiftmt_verif::lib_api::MSGS {
        let mt = ops.mt;
        for k in 0..60u64 {
            let choices: Vec<u32> = (0..2000).map(|i| splitmix(k * 7919 + i) as u32).collect();
            let mut src = Src::new(&choices);
            let m = swiftmt_verif::msgkit::gen_valid_msg(mt, &mut src);
            if (ops.parse_block4)(&m.text(false, false)).is_err() {
                continue;
            }
            for (i, f) in m.fields.iter().enumerate() {
                if f.n_options < 2 {
                    continue;
                }
                let base: String = f.tag.chars().take_while(|c| c.is_ascii_digit()).collect();
                let letter = f.tag[base.len()..].to_string();
                let key = (mt.to_string(), base.clone(), f.path.len());
                generated.entry(key.clone()).or_default().insert(letter);
                for l in " ABCDEFGHIJKLMNOPQRSTUVWXYZ".chars() {
                    let tag = if l == ' ' { base.clone() } else { format!("{base}{l}") };
                    if spec_of_tag(&tag).is_none() {
                        continue;
                    }
                    let ty = spec_of_tag(&tag).unwrap().ty;
                    let c = gen_valid(ty, &mut src);
                    let mut m2 = m.clone();
                    m2.fields[i].tag = tag.clone();
                    m2.fields[i].content = c.content;
                    if (ops.parse_block4)(&m2.text(false, false)).is_ok() {
                        accepted.entry(key.clone()).or_default().insert(tag[base.len()..].to_string());
                    }
                }
            }
        }
    }
    for (k, g) in &generated {
        let a = accepted.get(k).cloned().unwrap_or_default();
        if &a != g {
            println!("MT{} field {} (depth {}): layout generates {:?}, library accepts {:?}", k.0, k.1, k.2, g, a);
        }
    }
}

/// C07 runs in a child process: a stack overflow or any other abort inside the library cannot be caught
/// in-process (catch_unwind does not see it), and the property names "abort" and "unbounded recursion".
/// The worker journals the case each thread is about to run; when the worker dies by a signal, every
/// journalled case is re-run in a fresh child, and the one that kills it is the replay case of the violation.
fn c07_supervise(
    args: &[String],
    tier: Tier,
    seed: u64,
    discover: bool,
    replay: Option<String>,
) -> i32 {
    use std::os::unix::process::ExitStatusExt;
    use std::process::Command;
    let exe = std::env::current_exe().expect("own path");
    let journal = format!(
        "{}/harness/target/c07-journal-{}",
        swiftmt_verif::driver::VERIF_ROOT,
        std::process::id()
    );
    let _ = std::fs::remove_dir_all(&journal);
    let _ = std::fs::create_dir_all(&journal);
    let status = Command::new(&exe)
        .args(args)
        .env("VERIF_C07_WORKER", "1")
        .env("VERIF_C07_JOURNAL", &journal)
        .status();
    let status = match status {
        Ok(s) => s,
        Err(e) => {
            eprintln!("cannot start the C07 worker: {e}");
            return 2;
        }
    };
    if let Some(code) = status.code() {
        let _ = std::fs::remove_dir_all(&journal);
        return code;
    }
    let sig = status.signal().unwrap_or(0);
    eprintln!("C07 worker died by signal {sig}; looking for the case that kills it");
    let ctx = Ctx::new("C07", tier, seed, discover);
    // candidates: the replay file itself, or the journalled in-flight cases
    let mut candidates: Vec<(String, serde_json::Value)> = Vec::new();
    if let Some(path) = &replay {
        if let Ok(v) = std::fs::read_to_string(path)
            .map_err(|e| e.to_string())
            .and_then(|t| serde_json::from_str::<serde_json::Value>(&t).map_err(|e| e.to_string()))
        {
            candidates.push((path.clone(), v["case"].clone()));
        }
    } else if let Ok(rd) = std::fs::read_dir(&journal) {
        for e in rd.filter_map(|e| e.ok()) {
            if let Ok(v) = std::fs::read_to_string(e.path())
                .map_err(|e| e.to_string())
                .and_then(|t| serde_json::from_str::<serde_json::Value>(&t).map_err(|e| e.to_string()))
            {
                candidates.push((e.path().to_string_lossy().to_string(), v));
            }
        }
    }
    let mut code = 2;
    let mut found = false;
    for (origin, case) in candidates {
        let kind = case["kind"].as_str().unwrap_or("?").to_string();
        let crashes = if replay.is_some() {
            true // the replay run itself just died on this case
        } else {
            let probe = format!("{journal}/probe.json");
            let _ = std::fs::write(
                &probe,
                serde_json::json!({"property": "C07", "sub": "mutated-inputs", "case": case}).to_string(),
            );
            Command::new(&exe)
                .args(["C07", "--replay", &probe])
                .env("VERIF_C07_WORKER", "1")
                .stdout(std::process::Stdio::null())
                .stderr(std::process::Stdio::null())
                .status()
                .map(|s| s.code().is_none())
                .unwrap_or(false)
        };
        if !crashes {
            continue;
        }
        found = true;
        let sig_s = format!("C07|abort|{kind}");
        let detail = format!(
            "the process is killed by signal {sig} (stack overflow / abort inside the library, not a catchable panic) on a {}-byte input (target {})",
            case["input"].as_str().map(|x| x.len()).unwrap_or(0),
            case["target"].as_str().unwrap_or("?")
        );
        if let Some(path) = &replay {
            if ctx.known_key(&sig_s).is_some() {
                println!("KNOWN-FINDING: property=C07 {sig_s} {detail}");
                code = 0;
            } else {
                println!("VIOLATION property=C07 replay={path} signature={sig_s} detail={detail}");
                code = 1;
            }
        } else {
            let mut obs = swiftmt_verif::driver::Obs::default();
            obs.eval();
            obs.nontrivial_str(&case.to_string());
            ctx.report(
                &mut obs,
                "mutated-inputs",
                swiftmt_verif::driver::viol(sig_s, detail),
                &|| case.clone(),
            );
            ctx.total.lock().unwrap().merge(obs);
            code = ctx.finish();
        }
        let _ = origin;
        break;
    }
    if !found {
        eprintln!("the C07 worker died by signal {sig}, but none of the in-flight cases kills a fresh process: inconclusive");
    }
    let _ = std::fs::remove_dir_all(&journal);
    code
}
