//! One module per property. Each exposes `run(&Ctx)` and `replay(&Ctx, sub, case) -> Vec<Violation>`.
use crate::driver::{Ctx, Violation};
use serde_json::Value;

pub mod c01;
pub mod c02;
pub mod c03;
pub mod c05;
pub mod c10;

pub const ALL: &[&str] = &["C01", "C02", "C03", "C05", "C10"];

pub fn run(id: &str, ctx: &Ctx) {
    match id {
        "C01" => c01::run(ctx),
        "C02" => c02::run(ctx),
        "C03" => c03::run(ctx),
        "C10" => c10::run(ctx),
        "C05" => c05::run(ctx),
        _ => {
            eprintln!("unknown property {id}");
            std::process::exit(2);
        }
    }
}

pub fn replay(id: &str, ctx: &Ctx, sub: &str, case: &Value) -> Vec<Violation> {
    match id {
        "C01" => c01::replay(ctx, sub, case),
        "C02" => c02::replay(ctx, sub, case),
        "C03" => c03::replay(ctx, sub, case),
        "C10" => c10::replay(ctx, sub, case),
        "C05" => c05::replay(ctx, sub, case),
        _ => {
            eprintln!("unknown property {id}");
            std::process::exit(2);
        }
    }
}
