//! One module per property. Each exposes `run(&Ctx)` and `replay(&Ctx, sub, case) -> Vec<Violation>`.
use crate::driver::{Ctx, Violation};
use serde_json::Value;

pub mod c05;

pub const ALL: &[&str] = &["C05"];

pub fn run(id: &str, ctx: &Ctx) {
    match id {
        "C05" => c05::run(ctx),
        _ => {
            eprintln!("unknown property {id}");
            std::process::exit(2);
        }
    }
}

pub fn replay(id: &str, ctx: &Ctx, sub: &str, case: &Value) -> Vec<Violation> {
    match id {
        "C05" => c05::replay(ctx, sub, case),
        _ => {
            eprintln!("unknown property {id}");
            std::process::exit(2);
        }
    }
}
