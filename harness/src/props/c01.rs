//! C01 — nothing in an accepted message is silently discarded.
use crate::choice::Src;
use crate::driver::{Ctx, Obs, Violation, viol};
use crate::layout::in_language;
use crate::lib_api::{MSGS, msg_ops};
use crate::msgkit::*;
#[allow(unused_imports)]
use crate::refs::has_long_number;
use crate::refs::{Tok, approx_eq, tokenize};
use serde_json::{Value, json};

/// Compare the input token list with the tokenised serialisation of the accepted value.
pub fn faithfulness(mt: &str, mutation: &str, input: &[Tok], output: &[Tok]) -> Option<Violation> {
    let tin: Vec<&str> = input.iter().map(|t| t.tag.as_str()).collect();
    let tout: Vec<&str> = output.iter().map(|t| t.tag.as_str()).collect();
    if tin == tout {
        for (a, b) in input.iter().zip(output.iter()) {
            if !approx_eq(&a.content, &b.content) {
                if crate::refs::has_long_number(&a.content) {
                    // beyond f64 precision: reported once, deterministically, by C06
                    continue;
                }
                let class = "content-changed";
                return Some(viol(
                    format!("C01|MT{}|{}|{}", mt, class, a.tag),
                    format!(
                        "field {} content {:?} serialised as {:?}",
                        a.tag, a.content, b.content
                    ),
                ));
            }
        }
        return None;
    }
    // classify the first discrepancy
    let mut sorted_in = tin.clone();
    let mut sorted_out = tout.clone();
    sorted_in.sort();
    sorted_out.sort();
    let i = tin
        .iter()
        .zip(tout.iter())
        .position(|(a, b)| a != b)
        .unwrap_or(tin.len().min(tout.len()));
    let (class, tag) = if sorted_in == sorted_out {
        ("reordered", tin.get(i).copied().unwrap_or("-").to_string())
    } else if tout.len() < tin.len() || !sorted_in.iter().all(|t| sorted_out.contains(t)) {
        // something of the input is missing in the output
        let missing = sorted_in
            .iter()
            .find(|t| {
                sorted_in.iter().filter(|x| x == t).count()
                    > sorted_out.iter().filter(|x| x == t).count()
            })
            .copied()
            .unwrap_or("-");
        if tin.len() == tout.len() && i < tin.len() && tin[i][0..2] == tout[i][0..2] {
            ("tag-changed", format!("{}->{}", tin[i], tout[i]))
        } else {
            ("dropped", missing.to_string())
        }
    } else {
        ("invented", tout.get(i).copied().unwrap_or("-").to_string())
    };
    let sig = if class == "tag-changed" {
        format!("C01|MT{}|{}|{}", mt, class, tag)
    } else {
        format!("C01|MT{}|{}|{}|{}", mt, class, tag, mutation)
    };
    Some(viol(
        sig,
        format!("accepted, but tags in {:?} serialised as {:?}", tin, tout),
    ))
}

pub fn oracle(c: &MutCase, obs: &mut Obs) -> Vec<Violation> {
    let mut out = Vec::new();
    let text = c.text();
    let ops = msg_ops(&c.mt);
    let res = if c.envelope {
        (ops.parse_full)(&c.enveloped()).map(|f| f.body)
    } else {
        (ops.parse_block4)(&text)
    };
    let tags: Vec<String> = c.toks.iter().map(|t| t.tag.clone()).collect();
    let effective = c.mutation != "valid" && (c.bad_content || !in_language(&c.mt, &tags));
    obs.class(&format!("mutation:{}", c.mutation));
    obs.class(if res.is_ok() { "accepted" } else { "rejected" });
    if res.is_ok() || effective {
        obs.nontrivial_str(&text);
    }
    obs.sample(
        &format!(
            "{}:{}",
            c.mutation,
            if res.is_ok() { "accepted" } else { "rejected" }
        ),
        || json!({"mt": c.mt, "mutation": c.mutation, "tag": c.tag, "text": text}),
    );
    let b = match res {
        Ok(b) => b,
        Err(_) => return out,
    };
    let (_, toks_out) = tokenize(&b.mt_string);
    if let Some(v) = faithfulness(&c.mt, &c.mutation, &c.toks, &toks_out) {
        out.push(v);
    }
    if c.bad_content {
        out.push(viol(
            format!(
                "C01|MT{}|invalid-content-accepted|{}|bad-content",
                c.mt, c.tag
            ),
            format!(
                "field {} with content its own parser rejects was accepted inside the message:\n{}",
                c.tag, text
            ),
        ));
    }
    out
}

pub fn run(ctx: &Ctx) {
    ctx.add_rule("per message type (30): valid generated messages and one structural mutation of each (unknown tag, duplicate adjacent/distant, swap, move, append after last, over-cap repetition, content rejected by the field's own parser, delete, foreign field, foreign option letter), LF/CRLF, parse_from_block4 or SwiftParser::parse in an envelope; accepted => independent tokenisation of input and of to_mt_string must agree (tags in order, contents up to numeric formatting / line ends); non-trivial = accepted, or mutation effective (tag sequence outside the layout language or content invalid); distinct by text");
    ctx.assume("reference tokenizer: a field starts at a line `:NN[A]:`; content runs to the next such line or the `-` line");
    let to_json = |c: &MutCase| serde_json::to_value(c).unwrap();
    ctx.run_generated(
        "mutate",
        MSGS.len(),
        ctx.n(4000, 100000),
        1800,
        &|sh, src: &mut Src| mutate_msg(mt_of_shard(sh), src),
        &oracle,
        &to_json,
    );
}

pub fn replay(_ctx: &Ctx, _sub: &str, case: &Value) -> Vec<Violation> {
    let c: MutCase = serde_json::from_value(case.clone()).expect("replay case");
    oracle(&c, &mut Obs::default())
}
