//! C15 — shipped scenarios always generate valid, exactly round-trippable messages.
use crate::driver::{Ctx, Obs, Violation, viol};
use crate::lib_api::{plugin_generate, plugin_parse, plugin_publish, plugin_validate};
use crate::msgkit::is_tag_key;
use crate::refs::DecStr;
use serde::{Deserialize, Serialize};
use serde_json::{Value, json};

pub const SCENARIO_ROOT: &str = "/repo/test_scenarios";

pub fn scenario_files() -> Vec<String> {
    let mut out = Vec::new();
    if let Ok(rd) = std::fs::read_dir(SCENARIO_ROOT) {
        let mut dirs: Vec<_> = rd
            .filter_map(|e| e.ok())
            .map(|e| e.path())
            .filter(|p| p.is_dir())
            .collect();
        dirs.sort();
        for d in dirs {
            if let Ok(fs) = std::fs::read_dir(&d) {
                let mut files: Vec<_> = fs
                    .filter_map(|e| e.ok())
                    .map(|e| e.path())
                    .filter(|p| {
                        p.extension().map(|x| x == "json").unwrap_or(false)
                            && p.file_name().map(|n| n != "index.json").unwrap_or(false)
                    })
                    .collect();
                files.sort();
                for f in files {
                    out.push(
                        f.strip_prefix(SCENARIO_ROOT)
                            .unwrap()
                            .to_string_lossy()
                            .trim_start_matches('/')
                            .to_string(),
                    );
                }
            }
        }
    }
    out
}

#[derive(Clone, Debug, Serialize, Deserialize)]
pub struct ScenCase {
    pub scenario: String,
    /// the generated JSON (the reproducible unit: datafake's RNG cannot be seeded)
    pub generated: Value,
    /// "draw" = a plain draw; "record-holder" = kept from the tail search
    #[serde(default)]
    pub origin: String,
}

/// (path, kind, score) per JSON leaf: kind 0 = string length, 1 = magnitude of a number,
/// 2 = number of decimals of a number
fn leaf_scores(v: &Value, path: &str, out: &mut Vec<(String, u8, u64)>) {
    match v {
        Value::String(s) => out.push((path.to_string(), 0, s.chars().count() as u64)),
        Value::Number(n) => {
            let f = n.as_f64().unwrap_or(0.0).abs();
            out.push((path.to_string(), 1, (f.min(1e18)) as u64));
            let t = n.to_string();
            let d = t.split('.').nth(1).map(|x| x.len()).unwrap_or(0);
            out.push((path.to_string(), 2, d as u64));
        }
        Value::Array(a) => {
            // the index is kept: each occurrence is its own slot
            for (i, x) in a.iter().enumerate() {
                leaf_scores(x, &format!("{path}/{i}"), out);
            }
        }
        Value::Object(o) => {
            for (k, x) in o {
                leaf_scores(x, &format!("{path}/{k}"), out);
            }
        }
        _ => {}
    }
}

/// exact comparison: numbers as decimals, absent == null, nothing else
fn first_diff(a: &Value, b: &Value, path: &str, tag: &str) -> Option<(String, String)> {
    match (a, b) {
        (Value::Null, Value::Null) => None,
        (Value::Number(_), Value::Number(_)) => {
            let x = DecStr::from_json_number(a);
            let y = DecStr::from_json_number(b);
            let neg = |v: &Value| v.as_f64().map(|f| f < 0.0).unwrap_or(false);
            if x.is_some() && x == y
                || (x.is_none()
                    && y.is_none()
                    && neg(a) == neg(b)
                    && a.to_string().trim_start_matches('-')
                        == b.to_string().trim_start_matches('-'))
                || (neg(a)
                    && neg(b)
                    && DecStr::from_float_text(a.to_string().trim_start_matches('-'))
                        == DecStr::from_float_text(b.to_string().trim_start_matches('-')))
            {
                None
            } else {
                Some((path.to_string(), tag.to_string()))
            }
        }
        (Value::Object(x), Value::Object(y)) => {
            let mut keys: Vec<&String> = x.keys().chain(y.keys()).collect();
            keys.sort();
            keys.dedup();
            for k in keys {
                let t = if is_tag_key(k) { k.as_str() } else { tag };
                let r = first_diff(
                    x.get(k).unwrap_or(&Value::Null),
                    y.get(k).unwrap_or(&Value::Null),
                    &format!("{path}/{k}"),
                    t,
                );
                if r.is_some() {
                    return r;
                }
            }
            None
        }
        (Value::Array(x), Value::Array(y)) => {
            for i in 0..x.len().max(y.len()) {
                let r = first_diff(
                    x.get(i).unwrap_or(&Value::Null),
                    y.get(i).unwrap_or(&Value::Null),
                    &format!("{path}/{i}"),
                    tag,
                );
                if r.is_some() {
                    return r;
                }
            }
            None
        }
        // an object/array made only of nulls is "absent" too
        (Value::Null, other) | (other, Value::Null) => {
            fn all_null(v: &Value) -> bool {
                match v {
                    Value::Null => true,
                    Value::Object(o) => o.values().all(all_null),
                    _ => false,
                }
            }
            if all_null(other) {
                None
            } else {
                Some((path.to_string(), tag.to_string()))
            }
        }
        _ => {
            if a == b {
                None
            } else {
                Some((path.to_string(), tag.to_string()))
            }
        }
    }
}

pub fn oracle(c: &ScenCase, obs: &mut Obs) -> Vec<Violation> {
    let mut out = Vec::new();
    let sc = &c.scenario;
    obs.nontrivial_str(&format!("{}|{}", sc, c.generated));
    obs.class(sc.split('/').next().unwrap_or(""));
    if c.origin == "record-holder" {
        obs.class("tail-search:record-holder");
    }
    obs.sample(
        sc.split('/').next().unwrap_or(""),
        || json!({"scenario": sc, "generated": c.generated}),
    );
    let text = match plugin_publish(&c.generated) {
        Ok(t) => t,
        Err(e) => {
            out.push(viol(
                format!("C15|{sc}|publish-failed"),
                format!("{}\n{}", e.text(), c.generated),
            ));
            return out;
        }
    };
    match plugin_validate(&text) {
        Ok(v) => {
            let valid = v.get("valid").and_then(|b| b.as_bool()).unwrap_or(false);
            let errs = v
                .get("errors")
                .and_then(|a| a.as_array())
                .cloned()
                .unwrap_or_default();
            if !valid || !errs.is_empty() {
                let first = errs.first().and_then(|e| e.as_str()).unwrap_or("");
                let code: String = if first.starts_with('[') {
                    first.chars().skip(1).take_while(|c| *c != ']').collect()
                } else {
                    "parse-error".to_string()
                };
                out.push(viol(
                    format!("C15|{sc}|invalid|{code}"),
                    format!("validate_mt: {}\n{}", v, text),
                ));
            }
        }
        Err(e) => out.push(viol(format!("C15|{sc}|validate-failed"), e.text())),
    }
    match plugin_parse(&text) {
        Ok((data, _)) => {
            let orig = c.generated.get("json_data").unwrap_or(&c.generated);
            if let Some((path, tag)) = first_diff(orig, &data, "", "") {
                let area = if tag.is_empty() {
                    path.split('/').nth(1).unwrap_or("").to_string()
                } else {
                    tag
                };
                out.push(viol(format!("C15|{sc}|differs|{area}"), format!("parsed JSON differs from the generated JSON at {path}:\ngenerated {}\nparsed    {}\ntext:\n{}", orig, data, text)));
            }
        }
        Err(e) => out.push(viol(
            format!("C15|{sc}|parse-failed"),
            format!("{}\n{}", e.text(), text),
        )),
    }
    out
}

pub fn run(ctx: &Ctx) {
    let files = scenario_files();
    let draws = ctx.n(300, 5000);
    let gens = ctx.n(6000, 60000);
    ctx.add_rule(&format!("every scenario file under test_scenarios (all but index.json: {} files) x {} draws of the real pipeline generate_mt -> publish_mt -> validate_mt -> parse_mt, plus a tail search per file: of {} further generate_mt draws the record holders (per JSON leaf: longest string, largest number, most decimals) go through the same pipeline; oracle: publish ok, valid with no error, parsed JSON equals generated JSON (numbers compared exactly as decimals, absent == null); non-trivial = every draw; distinct by generated JSON", files.len(), draws, gens));
    ctx.assume("datafake-rs / fake draw from the thread RNG, which cannot be seeded: these draws are not a function of VERIF_SEED; the generated JSON of a failing draw is saved and is the reproducible unit");
    let to_json = |c: &ScenCase| serde_json::to_value(c).unwrap();
    ctx.run_enumerated(
        "pipeline",
        files.len(),
        &|sh| {
            let path = format!("{}/{}", SCENARIO_ROOT, files[sh]);
            let scen: Value = match std::fs::read_to_string(&path)
                .ok()
                .and_then(|s| serde_json::from_str(&s).ok())
            {
                Some(v) => v,
                None => {
                    return vec![ScenCase {
                        scenario: files[sh].clone(),
                        generated: json!({"__unreadable_scenario__": true}),
                        origin: "draw".into(),
                    }];
                }
            };
            let mut v = Vec::new();
            // tail search: of `gens` further generate_mt draws, only the record holders go through
            // the pipeline: per JSON leaf the longest string, the largest number and the number with
            // the most decimals. Rare long names / large amounts are reached without paying for the
            // whole pipeline on every draw.
            let mut records: std::collections::BTreeMap<(String, u8), (u64, Value)> =
                Default::default();
            for i in 0..draws + gens {
                match plugin_generate(&scen) {
                    Ok(g) => {
                        if i < draws {
                            v.push(ScenCase {
                                scenario: files[sh].clone(),
                                generated: g,
                                origin: "draw".into(),
                            });
                        } else {
                            let mut leaves = Vec::new();
                            leaf_scores(&g, "", &mut leaves);
                            let mut holder = false;
                            for (path, kind, score) in &leaves {
                                let key = (path.clone(), *kind);
                                if records.get(&key).map(|(s, _)| score > s).unwrap_or(true) {
                                    holder = true;
                                }
                            }
                            if holder {
                                for (path, kind, score) in leaves {
                                    let key = (path, kind);
                                    if records.get(&key).map(|(s, _)| score > *s).unwrap_or(true) {
                                        records.insert(key, (score, g.clone()));
                                    }
                                }
                            }
                        }
                    }
                    Err(e) => v.push(ScenCase {
                        scenario: files[sh].clone(),
                        generated: json!({"__generate_failed__": e.text()}),
                        origin: "draw".into(),
                    }),
                }
            }
            let mut seen = std::collections::BTreeSet::new();
            for (_, (_, g)) in records {
                if seen.insert(g.to_string()) {
                    v.push(ScenCase {
                        scenario: files[sh].clone(),
                        generated: g,
                        origin: "record-holder".into(),
                    });
                }
            }
            v
        },
        &|c: &ScenCase, obs: &mut Obs| {
            if let Some(e) = c.generated.get("__generate_failed__") {
                return vec![viol(
                    format!("C15|{}|generate-failed", c.scenario),
                    e.to_string(),
                )];
            }
            if c.generated.get("__unreadable_scenario__").is_some() {
                return vec![viol(
                    format!("C15|{}|unreadable", c.scenario),
                    "scenario file is not valid JSON".to_string(),
                )];
            }
            oracle(c, obs)
        },
        &to_json,
    );
}

pub fn replay(_ctx: &Ctx, _sub: &str, case: &Value) -> Vec<Violation> {
    let c: ScenCase = serde_json::from_value(case.clone()).expect("replay case");
    oracle(&c, &mut Obs::default())
}
