//! C15 — shipped scenarios always generate valid, exactly round-trippable messages.
use crate::driver::{Ctx, Obs, Violation, viol};
use crate::lib_api::{plugin_generate, plugin_parse, plugin_publish, plugin_validate};
use crate::msgkit::is_tag_key;
use crate::refs::DecStr;
use serde::{Deserialize, Serialize};
use serde_json::{Value, json};

pub const SCENARIO_ROOT: &str = "/repo/test_scenarios";

pub fn scenario_files() -> Vec<String> {
    let mut out = Vec::new();
    if let Ok(rd) = std::fs::read_dir(SCENARIO_ROOT) {
        let mut dirs: Vec<_> = rd
            .filter_map(|e| e.ok())
            .map(|e| e.path())
            .filter(|p| p.is_dir())
            .collect();
        dirs.sort();
        for d in dirs {
            if let Ok(fs) = std::fs::read_dir(&d) {
                let mut files: Vec<_> = fs
                    .filter_map(|e| e.ok())
                    .map(|e| e.path())
                    .filter(|p| {
                        p.extension().map(|x| x == "json").unwrap_or(false)
                            && p.file_name().map(|n| n != "index.json").unwrap_or(false)
                    })
                    .collect();
                files.sort();
                for f in files {
                    out.push(
                        f.strip_prefix(SCENARIO_ROOT)
                            .unwrap()
                            .to_string_lossy()
                            .trim_start_matches('/')
                            .to_string(),
                    );
                }
            }
        }
    }
    out
}

#[derive(Clone, Debug, Serialize, Deserialize)]
pub struct ScenCase {
    pub scenario: String,
    /// the generated JSON (the reproducible unit: datafake's RNG cannot be seeded)
    pub generated: Value,
    /// "draw" = a plain draw; "record-holder" = kept from the tail search
    #[serde(default)]
    pub origin: String,
}

/// (path, kind, score) per JSON leaf: kind 0 = string length, 1 = magnitude of a number,
/// 2 = number of decimals of a number
fn leaf_scores(v: &Value, path: &str, out: &mut Vec<(String, u8, u64)>) {
    match v {
        Value::String(s) => out.push((path.to_string(), 0, s.chars().count() as u64)),
        Value::Number(n) => {
            let f = n.as_f64().unwrap_or(0.0).abs();
            out.push((path.to_string(), 1, (f.min(1e18)) as u64));
            let t = n.to_string();
            let d = t.split('.').nth(1).map(|x| x.len()).unwrap_or(0);
            out.push((path.to_string(), 2, d as u64));
        }
        Value::Array(a) => {
            // the index is kept: each occurrence is its own slot
            for (i, x) in a.iter().enumerate() {
                leaf_scores(x, &format!("{path}/{i}"), out);
            }
        }
        Value::Object(o) => {
            for (k, x) in o {
                leaf_scores(x, &format!("{path}/{k}"), out);
            }
        }
        _ => {}
    }
}

/// exact comparison: numbers as decimals, absent == null, nothing else
fn first_diff(a: &Value, b: &Value, path: &str, tag: &str) -> Option<(String, String)> {
    match (a, b) {
        (Value::Null, Value::Null) => None,
        (Value::Number(_), Value::Number(_)) => {
            let x = DecStr::from_json_number(a);
            let y = DecStr::from_json_number(b);
            let neg = |v: &Value| v.as_f64().map(|f| f < 0.0).unwrap_or(false);
            if x.is_some() && x == y
                || (x.is_none()
                    && y.is_none()
                    && neg(a) == neg(b)
                    && a.to_string().trim_start_matches('-')
                        == b.to_string().trim_start_matches('-'))
                || (neg(a)
                    && neg(b)
                    && DecStr::from_float_text(a.to_string().trim_start_matches('-'))
                        == DecStr::from_float_text(b.to_string().trim_start_matches('-')))
            {
                None
            } else {
                Some((path.to_string(), tag.to_string()))
            }
        }
        (Value::Object(x), Value::Object(y)) => {
            let mut keys: Vec<&String> = x.keys().chain(y.keys()).collect();
            keys.sort();
            keys.dedup();
            for k in keys {
                let t = if is_tag_key(k) { k.as_str() } else { tag };
                let r = first_diff(
                    x.get(k).unwrap_or(&Value::Null),
                    y.get(k).unwrap_or(&Value::Null),
                    &format!("{path}/{k}"),
                    t,
                );
                if r.is_some() {
                    return r;
                }
            }
            None
        }
        (Value::Array(x), Value::Array(y)) => {
            for i in 0..x.len().max(y.len()) {
                let r = first_diff(
                    x.get(i).unwrap_or(&Value::Null),
                    y.get(i).unwrap_or(&Value::Null),
                    &format!("{path}/{i}"),
                    tag,
                );
                if r.is_some() {
                    return r;
                }
            }
            None
        }
        // an object/array made only of nulls is "absent" too
        (Value::Null, other) | (other, Value::Null) => {
            fn all_null(v: &Value) -> bool {
                match v {
                    Value::Null => true,
                    Value::Object(o) => o.values().all(all_null),
                    _ => false,
                }
            }
            if all_null(other) {
                None
            } else {
                Some((path.to_string(), tag.to_string()))
            }
        }
        _ => {
            if a == b {
                None
            } else {
                Some((path.to_string(), tag.to_string()))
            }
        }
    }
}

pub fn oracle(c: &ScenCase, obs: &mut Obs) -> Vec<Violation> {
    let mut out = Vec::new();
    let sc = &c.scenario;
    obs.nontrivial_str(&format!("{}|{}", sc, c.generated));
    obs.class(sc.split('/').next().unwrap_or(""));
    if c.origin == "record-holder" {
        obs.class("tail-search:record-holder");
    }
    obs.sample(
        sc.split('/').next().unwrap_or(""),
        || json!({"scenario": sc, "generated": c.generated}),
    );
    let text = match plugin_publish(&c.generated) {
        Ok(t) => t,
        Err(e) => {
            out.push(viol(
                format!("C15|{sc}|publish-failed"),
                format!("{}\n{}", e.text(), c.generated),
            ));
            return out;
        }
    };
    match plugin_validate(&text) {
        Ok(v) => {
            let valid = v.get("valid").and_then(|b| b.as_bool()).unwrap_or(false);
            let errs = v
                .get("errors")
                .and_then(|a| a.as_array())
                .cloned()
                .unwrap_or_default();
            if !valid || !errs.is_empty() {
                let first = errs.first().and_then(|e| e.as_str()).unwrap_or("");
                let code: String = if first.starts_with('[') {
                    first.chars().skip(1).take_while(|c| *c != ']').collect()
                } else {
                    "parse-error".to_string()
                };
                out.push(viol(
                    format!("C15|{sc}|invalid|{code}"),
                    format!("validate_mt: {}\n{}", v, text),
                ));
            }
        }
        Err(e) => out.push(viol(format!("C15|{sc}|validate-failed"), e.text())),
    }
    match plugin_parse(&text) {
        Ok((data, _)) => {
            let orig = c.generated.get("json_data").unwrap_or(&c.generated);
            if let Some((path, tag)) = first_diff(orig, &data, "", "") {
                let area = if tag.is_empty() {
                    path.split('/').nth(1).unwrap_or("").to_string()
                } else {
                    tag
                };
                out.push(viol(format!("C15|{sc}|differs|{area}"), format!("parsed JSON differs from the generated JSON at {path}:\ngenerated {}\nparsed    {}\ntext:\n{}", orig, data, text)));
            }
        }
        Err(e) => out.push(viol(
            format!("C15|{sc}|parse-failed"),
            format!("{}\n{}", e.text(), text),
        )),
    }
    out
}


// ---------------------------------------------------------------- pinned generator nodes
//
// Two kinds of draws that re-sampling cannot reach in any budget:
//  * `{"fake": ["date", fmt]}` returns today's date: the draw is a function of the clock. Every such node of a
//    scenario is pinned to one date of a grid (all nodes to the same date, as on a real day).
//  * string generators (company_name, street_address, ...) have a huge support with rare shapes (a blank
//    exactly where the scenario's own `substr` cuts, an apostrophe, the longest name). The generator is
//    sampled on its own - cheaply, hundreds of values per call - and one example per shape is kept; each
//    example is then pinned into each node of that kind, one node at a time, the rest still random.
// A pinned value is a value the node can produce (on some day / with some probability), so the pipeline
// must accept it like any other draw.

fn is_fake_node(v: &Value) -> Option<(&str, &Vec<Value>)> {
    let o = v.as_object()?;
    if o.len() != 1 {
        return None;
    }
    let a = o.get("fake")?.as_array()?;
    let kind = a.first()?.as_str()?;
    Some((kind, a))
}

/// paths of all fake nodes, with their spec rendered as text
fn fake_nodes(v: &Value, path: &mut Vec<String>, out: &mut Vec<(Vec<String>, String)>) {
    if let Some((_, a)) = is_fake_node(v) {
        out.push((path.clone(), Value::Array(a.clone()).to_string()));
        return;
    }
    match v {
        Value::Object(o) => {
            for (k, x) in o {
                path.push(k.clone());
                fake_nodes(x, path, out);
                path.pop();
            }
        }
        Value::Array(a) => {
            for (i, x) in a.iter().enumerate() {
                path.push(i.to_string());
                fake_nodes(x, path, out);
                path.pop();
            }
        }
        _ => {}
    }
}

fn set_at(v: &mut Value, path: &[String], new: Value) {
    let mut cur = v;
    for k in path {
        cur = match cur {
            Value::Object(o) => match o.get_mut(k) {
                Some(x) => x,
                None => return,
            },
            Value::Array(a) => match k.parse::<usize>().ok().and_then(|i| a.get_mut(i)) {
                Some(x) => x,
                None => return,
            },
            _ => return,
        };
    }
    *cur = new;
}

/// integer arguments of `substr` operators of a scenario: the places where a generated string is cut
fn cut_positions(v: &Value, out: &mut std::collections::BTreeSet<usize>) {
    match v {
        Value::Object(o) => {
            if let Some(Value::Array(a)) = o.get("substr") {
                if let (Some(st), Some(len)) = (
                    a.get(1).and_then(|x| x.as_u64()),
                    a.get(2).and_then(|x| x.as_u64()),
                ) {
                    out.insert((st + len) as usize);
                }
            }
            for x in o.values() {
                cut_positions(x, out);
            }
        }
        Value::Array(a) => {
            for x in a {
                cut_positions(x, out);
            }
        }
        _ => {}
    }
}

/// shapes of a generated string that matter to a line-oriented, length-limited format
fn string_features(s: &str, cuts: &std::collections::BTreeSet<usize>) -> Vec<String> {
    let cs: Vec<char> = s.chars().collect();
    let mut f = vec![format!("len:{}", cs.len().min(120))];
    for &p in cuts {
        if p >= 1 && p <= cs.len() && cs[p - 1] == ' ' {
            f.push(format!("blank-before-cut:{p}"));
        }
        if p < cs.len() && cs[p] == ' ' {
            f.push(format!("blank-after-cut:{p}"));
        }
        if p >= 1 && p <= cs.len() && !cs[p - 1].is_ascii_alphanumeric() && cs[p - 1] != ' ' {
            f.push(format!("punct-before-cut:{p}"));
        }
    }
    for c in cs.iter() {
        if !c.is_ascii_alphanumeric() && *c != ' ' {
            f.push(format!("char:{c}"));
        }
    }
    if cs.first() == Some(&' ') {
        f.push("leading-blank".into());
    }
    if cs.last() == Some(&' ') {
        f.push("trailing-blank".into());
    }
    if s.contains("  ") {
        f.push("double-blank".into());
    }
    f
}

/// sample one generator spec `n` x 200 times on its own; one example per feature
fn harvest(spec: &str, calls: u32, cuts: &std::collections::BTreeSet<usize>) -> Vec<(String, String)> {
    let node: Value = json!({"fake": serde_json::from_str::<Value>(spec).unwrap_or(Value::Null)});
    let mini = json!({"variables": {}, "schema": {"v": (0..200).map(|_| node.clone()).collect::<Vec<_>>()}});
    let mut seen: std::collections::BTreeMap<String, String> = Default::default();
    for _ in 0..calls {
        if let Ok(g) = plugin_generate(&mini) {
            if let Some(a) = g.get("v").and_then(|x| x.as_array()) {
                for x in a {
                    if let Some(s) = x.as_str() {
                        for f in string_features(s, cuts) {
                            // for "contains character c" the longest example is kept (a special character
                            // matters most where the string is also cut or near a length limit); for the
                            // other shapes the first one
                            if f.starts_with("char:") {
                                let e = seen.entry(f).or_insert_with(|| s.to_string());
                                if s.chars().count() > e.chars().count() {
                                    *e = s.to_string();
                                }
                            } else {
                                seen.entry(f).or_insert_with(|| s.to_string());
                            }
                        }
                    }
                }
            }
        }
    }
    seen.into_iter().collect()
}

fn date_grid(thorough: bool) -> Vec<chrono::NaiveDate> {
    let mut v = Vec::new();
    let years: Vec<i32> = if thorough { (2024..=2036).collect() } else { vec![2028] };
    for y in years {
        let mut d = chrono::NaiveDate::from_ymd_opt(y, 1, 1).unwrap();
        while chrono::Datelike::year(&d) == y {
            v.push(d);
            d = d.succ_opt().unwrap();
        }
    }
    if !thorough {
        // a non-leap year's month ends and the last day the two-digit year window (1950-2049) can express;
        // a clock beyond 2049 is outside what a YYMMDD date can carry and is not a draw to judge
        for (y, m, dd) in [(2027, 2, 28), (2027, 3, 1), (2027, 12, 31), (2029, 1, 1), (2049, 12, 31), (2030, 6, 30)] {
            v.push(chrono::NaiveDate::from_ymd_opt(y, m, dd).unwrap());
        }
    }
    v
}

pub fn run(ctx: &Ctx) {
    let files = scenario_files();
    let draws = ctx.n(300, 5000);
    let gens = ctx.n(6000, 60000);
    ctx.add_rule(&format!("every scenario file under test_scenarios (all but index.json: {} files) x {} draws of the real pipeline generate_mt -> publish_mt -> validate_mt -> parse_mt, plus a tail search per file: of {} further generate_mt draws the record holders (per JSON leaf: longest string, largest number, most decimals) go through the same pipeline; oracle: publish ok, valid with no error, parsed JSON equals generated JSON (numbers compared exactly as decimals, absent == null); non-trivial = every draw; distinct by generated JSON", files.len(), draws, gens));
    ctx.assume("datafake-rs / fake draw from the thread RNG, which cannot be seeded: these draws are not a function of VERIF_SEED; the generated JSON of a failing draw is saved and is the reproducible unit");
    let to_json = |c: &ScenCase| serde_json::to_value(c).unwrap();
    ctx.run_enumerated(
        "pipeline",
        files.len(),
        &|sh| {
            let path = format!("{}/{}", SCENARIO_ROOT, files[sh]);
            let scen: Value = match std::fs::read_to_string(&path)
                .ok()
                .and_then(|s| serde_json::from_str(&s).ok())
            {
                Some(v) => v,
                None => {
                    return vec![ScenCase {
                        scenario: files[sh].clone(),
                        generated: json!({"__unreadable_scenario__": true}),
                        origin: "draw".into(),
                    }];
                }
            };
            let mut v = Vec::new();
            // tail search: of `gens` further generate_mt draws, only the record holders go through
            // the pipeline: per JSON leaf the longest string, the largest number and the number with
            // the most decimals. Rare long names / large amounts are reached without paying for the
            // whole pipeline on every draw.
            let mut records: std::collections::BTreeMap<(String, u8), (u64, Value)> =
                Default::default();
            for i in 0..draws + gens {
                match plugin_generate(&scen) {
                    Ok(g) => {
                        if i < draws {
                            v.push(ScenCase {
                                scenario: files[sh].clone(),
                                generated: g,
                                origin: "draw".into(),
                            });
                        } else {
                            let mut leaves = Vec::new();
                            leaf_scores(&g, "", &mut leaves);
                            let mut holder = false;
                            for (path, kind, score) in &leaves {
                                let key = (path.clone(), *kind);
                                if records.get(&key).map(|(s, _)| score > s).unwrap_or(true) {
                                    holder = true;
                                }
                            }
                            if holder {
                                for (path, kind, score) in leaves {
                                    let key = (path, kind);
                                    if records.get(&key).map(|(s, _)| score > *s).unwrap_or(true) {
                                        records.insert(key, (score, g.clone()));
                                    }
                                }
                            }
                        }
                    }
                    Err(e) => v.push(ScenCase {
                        scenario: files[sh].clone(),
                        generated: json!({"__generate_failed__": e.text()}),
                        origin: "draw".into(),
                    }),
                }
            }
            let mut seen = std::collections::BTreeSet::new();
            for (_, (_, g)) in records {
                if seen.insert(g.to_string()) {
                    v.push(ScenCase {
                        scenario: files[sh].clone(),
                        generated: g,
                        origin: "record-holder".into(),
                    });
                }
            }
            v
        },
        &|c: &ScenCase, obs: &mut Obs| {
            if let Some(e) = c.generated.get("__generate_failed__") {
                return vec![viol(
                    format!("C15|{}|generate-failed", c.scenario),
                    e.to_string(),
                )];
            }
            if c.generated.get("__unreadable_scenario__").is_some() {
                return vec![viol(
                    format!("C15|{}|unreadable", c.scenario),
                    "scenario file is not valid JSON".to_string(),
                )];
            }
            oracle(c, obs)
        },
        &to_json,
    );
    pinned(ctx, &files);
}

fn pinned(ctx: &Ctx, files: &[String]) {
    let thorough = !ctx.quick();
    let calls = ctx.n(60, 1500);
    let per_example = 1usize;
    ctx.add_rule(&format!("pinned generator nodes: (a) every date node of a scenario pinned to each day of a grid ({} days: every day of a leap year, month ends of a common year, the last day of the two-digit-year window; thorough: every day of 2024-2036); (b) each string generator spec sampled on its own ({} x 200 values), one example kept per shape (length, blank / punctuation at each position where a scenario cuts with substr, each non-alphanumeric character, leading / trailing / double blank), each example pinned into each node of that spec, one node at a time; same pipeline and oracle", date_grid(thorough).len(), calls));
    ctx.assume("a pinned value is one the node can produce (today's date on some day; a string the generator returned when sampled on its own), so it is a legitimate draw");
    let to_json = |c: &ScenCase| serde_json::to_value(c).unwrap();
    let grid = date_grid(thorough);
    // all cut positions over all scenarios, and all string specs
    let mut cuts = std::collections::BTreeSet::new();
    let mut specs = std::collections::BTreeSet::new();
    let mut scens: Vec<(String, Value)> = Vec::new();
    for f in files {
        let path = format!("{}/{}", SCENARIO_ROOT, f);
        if let Some(v) = std::fs::read_to_string(&path)
            .ok()
            .and_then(|s| serde_json::from_str::<Value>(&s).ok())
        {
            cut_positions(&v, &mut cuts);
            let mut nodes = Vec::new();
            fake_nodes(&v, &mut Vec::new(), &mut nodes);
            for (_, spec) in nodes {
                if !spec.starts_with("[\"date\"") && !spec.starts_with("[\"uuid\"") {
                    specs.insert(spec);
                }
            }
            scens.push((f.clone(), v));
        }
    }
    let specs: Vec<String> = specs.into_iter().collect();
    // harvest in parallel (one shard per spec)
    let harvested: std::sync::Mutex<std::collections::BTreeMap<String, Vec<(String, String)>>> =
        Default::default();
    ctx.run_shards("harvest", specs.len(), &|i, obs| {
        let h = harvest(&specs[i], calls, &cuts);
        obs.class(&format!("harvest:{}:{}-shapes", specs[i], h.len()));
        harvested.lock().unwrap().insert(specs[i].clone(), h);
    });
    let harvested = harvested.into_inner().unwrap();
    ctx.run_enumerated(
        "pinned",
        scens.len(),
        &|sh| {
            let (name, scen) = &scens[sh];
            let mut nodes = Vec::new();
            fake_nodes(scen, &mut Vec::new(), &mut nodes);
            let mut v = Vec::new();
            // (a) dates
            let date_nodes: Vec<&(Vec<String>, String)> =
                nodes.iter().filter(|(_, s)| s.starts_with("[\"date\"")).collect();
            if !date_nodes.is_empty() {
                for d in &grid {
                    let mut sc = scen.clone();
                    for (path, spec) in &date_nodes {
                        let fmt = serde_json::from_str::<Value>(spec)
                            .ok()
                            .and_then(|a| a.get(1).and_then(|x| x.as_str().map(|s| s.to_string())))
                            .unwrap_or("%Y-%m-%d".into());
                        set_at(&mut sc, path, Value::String(d.format(&fmt).to_string()));
                    }
                    match plugin_generate(&sc) {
                        Ok(g) => v.push(ScenCase {
                            scenario: name.clone(),
                            generated: g,
                            origin: format!("pinned-date:{d}"),
                        }),
                        Err(e) => v.push(ScenCase {
                            scenario: name.clone(),
                            generated: json!({"__generate_failed__": e.text()}),
                            origin: format!("pinned-date:{d}"),
                        }),
                    }
                }
            }
            // (b) strings
            for (path, spec) in &nodes {
                if let Some(examples) = harvested.get(spec) {
                    for (feature, ex) in examples {
                        for _ in 0..per_example {
                            let mut sc = scen.clone();
                            set_at(&mut sc, path, Value::String(ex.clone()));
                            match plugin_generate(&sc) {
                                Ok(g) => v.push(ScenCase {
                                    scenario: name.clone(),
                                    generated: g,
                                    origin: format!("pinned-string:{feature}"),
                                }),
                                Err(e) => v.push(ScenCase {
                                    scenario: name.clone(),
                                    generated: json!({"__generate_failed__": e.text()}),
                                    origin: format!("pinned-string:{feature}"),
                                }),
                            }
                        }
                    }
                }
            }
            v
        },
        &|c: &ScenCase, obs: &mut Obs| {
            if let Some(e) = c.generated.get("__generate_failed__") {
                return vec![viol(
                    format!("C15|{}|generate-failed", c.scenario),
                    format!("{} ({})", e, c.origin),
                )];
            }
            obs.class(if c.origin.starts_with("pinned-date") { "pinned:date" } else { "pinned:string" });
            oracle(c, obs)
        },
        &to_json,
    );
}

pub fn replay(_ctx: &Ctx, _sub: &str, case: &Value) -> Vec<Violation> {
    let c: ScenCase = serde_json::from_value(case.clone()).expect("replay case");
    oracle(&c, &mut Obs::default())
}
