//! C08 — JSON conversion is lossless and agrees with the MT serialisation.
use crate::choice::Src;
use crate::driver::{Ctx, Obs, Violation, viol};
use crate::fieldkit::spec_of;
use crate::lib_api::{
    FIELDS, MSGS, field_ops, header_from_json, header_parse, msg_ops, plugin_parse, plugin_publish,
};
use crate::msgkit::*;
use crate::props::c02::{FieldRt, diff_tag, gen_field_case};
use serde_json::{Value, json};

fn empty_placeholder(v: &Value, cur: &str) -> Option<String> {
    match v {
        Value::String(s) if s.is_empty() => Some(cur.to_string()),
        Value::Array(a) => {
            if a.is_empty() {
                return Some(cur.to_string());
            }
            a.iter().find_map(|x| empty_placeholder(x, cur))
        }
        Value::Object(o) => {
            if o.is_empty() {
                return Some(cur.to_string());
            }
            o.iter()
                .find_map(|(k, x)| empty_placeholder(x, if is_tag_key(k) { k } else { cur }))
        }
        _ => None,
    }
}

pub fn msg_oracle(c: &MutCase, obs: &mut Obs) -> Vec<Violation> {
    let mut out = full_oracle(&c.mt, &c.enveloped(), &c.mutation, &format!("msg|MT{}", c.mt), obs);
    // repeated fields appear in the JSON in input order: every top-level JSON array under a tag key is
    // compared, element by element, with the field-level JSON of the input's occurrences of that tag
    if let Ok(m) = (msg_ops(&c.mt).parse_full)(&c.enveloped()) {
        if let Some(fields) = m.json.get("fields").and_then(|f| f.as_object()) {
            for (k, v) in fields {
                let arr = match v.as_array() {
                    Some(a) if is_tag_key(k) && a.len() >= 2 => a,
                    _ => continue,
                };
                let inputs: Vec<&crate::refs::Tok> = c.toks.iter().filter(|t| &t.tag == k).collect();
                if inputs.len() != arr.len() {
                    continue; // the tag also occurs inside sequences: not a plain top-level repetition
                }
                let sp = match crate::fieldkit::spec_of_tag(k) {
                    Some(sp) => sp,
                    None => continue,
                };
                for (i, (t, got)) in inputs.iter().zip(arr.iter()).enumerate() {
                    if let Ok(fv) = (field_ops(sp.ty).parse)(&t.content) {
                        if &fv.json != got {
                            out.push(viol(
                                format!("C08|msg|MT{}|array-order|{}", c.mt, k),
                                format!(
                                    "element {i} of the JSON array {k} is {} but occurrence {i} of :{k}: in the input is {:?} = {}",
                                    got, t.content, fv.json
                                ),
                            ));
                            break;
                        }
                    }
                }
            }
        }
    }
    out
}

/// generated envelopes (all header forms and optional header tags) around a minimal body
pub fn env_oracle(c: &crate::props::c10::EnvCase, obs: &mut Obs) -> Vec<Violation> {
    let label = if c.near_miss.is_empty() {
        format!(
            "b2:{}{}{}{}",
            &c.b2[0..1],
            c.b2.len(),
            if c.b3.is_some() { "+b3" } else { "" },
            if c.b5.is_some() { "+b5" } else { "" }
        )
    } else {
        format!("near-miss:{}", c.near_miss)
    };
    full_oracle(&c.mt, &c.text(), &label, "env", obs)
}

/// headers on their own: parse -> JSON -> header must give the same JSON and the same text
pub fn hdr_oracle(c: &crate::props::c10::HdrCase, obs: &mut Obs) -> Vec<Violation> {
    let mut out = Vec::new();
    let (disp, hj) = match header_parse(c.kind, &c.text) {
        Ok(x) => x,
        Err(_) => {
            obs.class("header:rejected-input");
            return out;
        }
    };
    obs.class(&format!("header:{}", c.class));
    obs.nontrivial_str(&format!("{}|{}", c.kind, c.text));
    obs.sample(
        &format!("header:{}", c.class),
        || json!({"kind": c.kind, "text": c.text, "json": hj}),
    );
    match header_from_json(c.kind, &hj) {
        Err(e) => {
            if !e.is_panic() {
                out.push(viol(
                    format!("C08|header|block{}|json-rejected", c.kind),
                    format!("own JSON is rejected: {}\n{}", e.text(), hj),
                ));
            }
        }
        Ok((d2, j2)) => {
            if j2 != hj {
                let tag = diff_tag(&hj, &j2, "").unwrap_or_default();
                out.push(viol(
                    format!("C08|header|block{}|json-differs|{tag}", c.kind),
                    format!("JSON round trip of {:?} differs at {tag}:\n{}\nvs\n{}", c.text, hj, j2),
                ));
            }
            if d2 != disp {
                out.push(viol(
                    format!("C08|header|block{}|mt-differs-after-json", c.kind),
                    format!("header rebuilt from JSON displays {:?}, the parsed one {:?}", d2, disp),
                ));
            }
        }
    }
    out
}

/// tag of the first block-4 field in which two message texts differ ("header" when the difference is
/// outside block 4, "-" when one text has fewer fields)
fn first_diff_tag(a: &str, b: &str) -> String {
    let (_, ta) = crate::refs::tokenize(&crate::props::c10::block4_of(a));
    let (_, tb) = crate::refs::tokenize(&crate::props::c10::block4_of(b));
    for (x, y) in ta.iter().zip(tb.iter()) {
        if x != y {
            return x.tag.clone();
        }
    }
    if ta.len() != tb.len() {
        return "-".into();
    }
    "header".into()
}

fn full_oracle(mt: &str, x: &str, mutation: &str, scope: &str, obs: &mut Obs) -> Vec<Violation> {
    let mut out = Vec::new();
    let ops = msg_ops(mt);
    let x = x.to_string();
    let c_mt = mt.to_string();
    if crate::refs::has_long_number(&crate::props::c10::block4_of(&x)) {
        obs.excluded("amount-beyond-f64-precision (C06 reports it)");
        return out;
    }
    let m = match (ops.parse_full)(&x) {
        Ok(m) => m,
        Err(_) => {
            obs.class("msg:rejected-input");
            return out;
        }
    };
    obs.class(&format!("{}:accepted:{}", scope.split('|').next().unwrap_or("msg"), mutation));
    obs.nontrivial_str(&x);
    obs.sample(scope.split('|').next().unwrap_or("msg"), || json!({"mt": c_mt, "text": x, "json": m.json}));
    // (1) JSON -> message -> JSON
    match (ops.full_from_json)(&m.json) {
        Err(e) => {
            if !e.is_panic() {
                out.push(viol(
                    format!("C08|{scope}|json-rejected"),
                    format!("own JSON is rejected: {}\n{}", e.text(), m.json),
                ));
            }
        }
        Ok(m2) => {
            if m2.json != m.json {
                let tag = diff_tag(&m.json, &m2.json, "").unwrap_or_default();
                out.push(viol(
                    format!("C08|{scope}|json-differs|{tag}"),
                    format!(
                        "JSON round trip differs at {tag}:\n{}\nvs\n{}",
                        m.json, m2.json
                    ),
                ));
            }
            if m2.mt_message != m.mt_message {
                out.push(viol(
                    format!(
                        "C08|{scope}|mt-differs-after-json|{}",
                        first_diff_tag(&m.mt_message, &m2.mt_message)
                    ),
                    format!(
                        "message rebuilt from JSON serialises differently:\n{}\nvs\n{}",
                        m.mt_message, m2.mt_message
                    ),
                ));
            }
        }
    }
    // (2) publish plugin == direct serialisation
    match plugin_publish(&m.json) {
        Err(e) => {
            if !e.is_panic() {
                // the situation is named when it is the known one: the library's own serialisation of the
                // parsed message carries a field with no content (an option-B value whose members are all
                // null), which publish_mt drops and then cannot place when the slot is mandatory
                let (_, toks) = crate::refs::tokenize(&crate::props::c10::block4_of(&m.mt_message));
                let situation = toks
                    .iter()
                    .find(|t| t.content.trim().is_empty())
                    .map(|t| format!("|empty-serialised:{}", t.tag))
                    .unwrap_or_default();
                out.push(viol(
                    format!("C08|{scope}|publish-rejected{situation}"),
                    format!(
                        "publish_mt rejects the JSON of a parsed message: {}",
                        e.text()
                    ),
                ));
            }
        }
        Ok(t) => {
            if t != m.mt_message {
                out.push(viol(
                    format!(
                        "C08|{scope}|publish-differs|{}",
                        first_diff_tag(&m.mt_message, &t)
                    ),
                    format!(
                        "publish_mt text differs from to_mt_message:\n{}\nvs\n{}",
                        t, m.mt_message
                    ),
                ));
            }
        }
    }
    // (3) parse plugin == typed JSON
    match plugin_parse(&x) {
        Err(e) => {
            if !e.is_panic() {
                out.push(viol(
                    format!("C08|{scope}|plugin-parse-rejected"),
                    format!(
                        "parse_mt rejects a message the typed API accepts: {}",
                        e.text()
                    ),
                ));
            }
        }
        Ok((data, _meta)) => {
            if data != m.json {
                let tag = diff_tag(&m.json, &data, "").unwrap_or_default();
                out.push(viol(
                    format!("C08|{scope}|plugin-parse-differs|{tag}"),
                    format!("parse_mt JSON differs from the typed JSON at {tag}"),
                ));
            }
        }
    }
    // (4) no empty placeholder for an absent optional
    if let Some(f) = m.json.get("fields") {
        if let Some(tag) = empty_placeholder(f, "") {
            out.push(viol(
                format!("C08|{scope}|empty-placeholder|{tag}"),
                format!("JSON carries an empty string/object/array at {tag}: {}", f),
            ));
        }
    }
    out
}

pub fn field_oracle(c: &FieldRt, obs: &mut Obs) -> Vec<Violation> {
    field_oracle_with(c, obs, false)
}

pub fn field_oracle_with(c: &FieldRt, obs: &mut Obs, judge_undetermined: bool) -> Vec<Violation> {
    let mut out = Vec::new();
    let ops = field_ops(&c.ty);
    if crate::refs::has_long_number(&c.content) {
        obs.excluded("amount-beyond-f64-precision (C06 reports it)");
        return out;
    }
    match spec_of(&c.spec_ty).g.verdict(&c.content) {
        crate::spec::Verdict::MustReject => {
            obs.excluded("field:outside-documented-format");
            return out;
        }
        crate::spec::Verdict::Undetermined if !judge_undetermined => {
            // judged only in the deterministic grid, so that such signatures do not depend on the seed
            obs.excluded("field:undetermined-format (judged in the grid sub-check)");
            return out;
        }
        _ => {}
    }
    let v1 = match &c.letter {
        Some(l) => (ops.parse_variant)(&c.content, Some(l.as_str()), c.base.as_deref()),
        None => (ops.parse)(&c.content),
    };
    let v1 = match v1 {
        Ok(v) => v,
        Err(_) => {
            obs.class("field:rejected-input");
            return out;
        }
    };
    obs.class("field:accepted");
    obs.nontrivial_str(&format!("{}|{:?}|{}", c.ty, c.letter, c.content));
    obs.sample(
        "field",
        || json!({"field": c.ty, "content": c.content, "json": v1.json}),
    );
    match (ops.from_json)(&v1.json) {
        Err(e) => {
            if !e.is_panic() {
                out.push(viol(
                    format!("C08|field|{}|json-rejected", c.ty),
                    format!(
                        "content {:?} -> JSON {} is rejected: {}",
                        c.content,
                        v1.json,
                        e.text()
                    ),
                ));
            }
        }
        Ok(v2) => {
            if v2.json != v1.json || v2.debug != v1.debug {
                out.push(viol(
                    format!("C08|field|{}|json-differs", c.ty),
                    format!("content {:?}: {} vs {}", c.content, v1.json, v2.json),
                ));
            }
            if v2.swift != v1.swift {
                out.push(viol(
                    format!("C08|field|{}|mt-differs-after-json", c.ty),
                    format!("content {:?}: {:?} vs {:?}", c.content, v1.swift, v2.swift),
                ));
            }
        }
    }
    out
}

pub fn run(ctx: &Ctx) {
    ctx.add_rule("message level: per type, valid / mutated texts in a fixed envelope (LF/CRLF), and minimal bodies in generated envelopes (every block-1/2 form, block-3/5 tag subsets); headers on their own (parse -> JSON -> header equal in JSON and text); accepted => from_value(to_value(m)) equal in JSON and MT text, publish_mt(JSON) == to_mt_message, parse_mt JSON == typed JSON, no empty placeholder, top-level JSON arrays of a repeated tag element-wise equal to the input's occurrences in input order; field level: per field type (114), accepted documented-format contents => from_value(to_value(v)) equal in JSON and MT; non-trivial = accepted; distinct by input");
    let to_json = |c: &MutCase| serde_json::to_value(c).unwrap();
    ctx.run_generated(
        "msg",
        MSGS.len(),
        ctx.n(800, 20000),
        1800,
        &|sh, src: &mut Src| crate::props::c02::gen_msg_case(mt_of_shard(sh), src),
        &msg_oracle,
        &to_json,
    );
    let to_json_env = |c: &crate::props::c10::EnvCase| serde_json::to_value(c).unwrap();
    ctx.run_generated(
        "env",
        MSGS.len(),
        ctx.n(1500, 30000),
        400,
        &|sh, src: &mut Src| crate::props::c10::gen_env(mt_of_shard(sh), src),
        &env_oracle,
        &to_json_env,
    );
    let to_json_hdr = |c: &crate::props::c10::HdrCase| serde_json::to_value(c).unwrap();
    ctx.run_generated(
        "header",
        16,
        ctx.n(4000, 60000),
        120,
        &|_sh, src: &mut Src| crate::props::c10::gen_hdr(src),
        &hdr_oracle,
        &to_json_hdr,
    );
    let to_json2 = |c: &FieldRt| serde_json::to_value(c).unwrap();
    ctx.run_generated(
        "field",
        FIELDS.len(),
        ctx.n(1500, 40000),
        300,
        &gen_field_case,
        &field_oracle,
        &to_json2,
    );
    let k = ctx.n(4, 20) as u64;
    ctx.run_enumerated(
        "field-grid",
        FIELDS.len(),
        &|sh| crate::props::c02::field_grid(sh, k),
        &|c: &FieldRt, obs: &mut Obs| field_oracle_with(c, obs, true),
        &to_json2,
    );
}

pub fn replay(_ctx: &Ctx, sub: &str, case: &Value) -> Vec<Violation> {
    if sub == "field" || sub == "field-grid" {
        let c: FieldRt = serde_json::from_value(case.clone()).expect("replay case");
        field_oracle_with(&c, &mut Obs::default(), true)
    } else if sub == "env" {
        let c: crate::props::c10::EnvCase =
            serde_json::from_value(case.clone()).expect("replay case");
        env_oracle(&c, &mut Obs::default())
    } else if sub == "header" {
        let c: crate::props::c10::HdrCase =
            serde_json::from_value(case.clone()).expect("replay case");
        hdr_oracle(&c, &mut Obs::default())
    } else {
        let c: MutCase = serde_json::from_value(case.clone()).expect("replay case");
        msg_oracle(&c, &mut Obs::default())
    }
}
