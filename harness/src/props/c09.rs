//! C09 — mandatory structure is enforced and the error names the culprit.
use crate::choice::Src;
use crate::driver::{Ctx, Obs, Violation, viol};
use crate::layout::in_language;
use crate::lib_api::{LibErr, MSGS, msg_ops};
use crate::msgkit::*;
use crate::refs::Tok;
use serde::{Deserialize, Serialize};
use serde_json::{Value, json};
use swift_mt_message::errors::ParseError;

#[derive(Clone, Debug, Serialize, Deserialize)]
pub struct StructCase {
    pub mt: String,
    pub toks: Vec<Tok>,
    /// "delete" or "corrupt"
    pub kind: String,
    pub tag: String,
    /// corrupt: the new content
    pub content: String,
    pub crlf: bool,
    #[serde(default)]
    pub base_accepted: bool,
    /// delete: where the deleted occurrence sat: "top" (outside any repeating group), or
    /// first|later (occurrence of its group) - opener|inner (first field of that occurrence or not)
    #[serde(default)]
    pub ctx: String,
}

impl StructCase {
    pub fn text(&self) -> String {
        let nl = if self.crlf { "\r\n" } else { "\n" };
        let mut s = String::new();
        for t in &self.toks {
            s.push_str(&format!(":{}:{}{}", t.tag, t.content.replace('\n', nl), nl));
        }
        s.push('-');
        s
    }
}

pub fn generate(mt: &str, src: &mut Src) -> StructCase {
    let base = gen_valid_msg(mt, src);
    let mut toks = toks_of(&base);
    let crlf = src.chance(1, 4);
    let base_accepted = (msg_ops(mt).parse_block4)(&base.text(false, false)).is_ok();
    if src.flip() {
        // delete one mandatory occurrence
        let mand: Vec<usize> = base
            .fields
            .iter()
            .enumerate()
            .filter(|(_, f)| f.mandatory)
            .map(|(i, _)| i)
            .collect();
        let i = mand[src.below(mand.len())];
        let tag = toks[i].tag.clone();
        let path = &base.fields[i].path;
        let ctx = if path.is_empty() {
            "top".to_string()
        } else {
            let occ = if *path.last().unwrap() == 0 { "first" } else { "later" };
            let opener = i == 0 || base.fields[i - 1].path != *path;
            format!("{occ}-{}", if opener { "opener" } else { "inner" })
        };
        toks.remove(i);
        StructCase {
            mt: mt.to_string(),
            toks,
            kind: "delete".into(),
            tag,
            content: String::new(),
            crlf,
            base_accepted,
            ctx,
        }
    } else {
        let n = toks.len();
        let mut i = src.below(n);
        let mut bad = None;
        for _ in 0..4 {
            bad = bad_content_for(&toks[i].tag, src);
            if bad.is_some() {
                break;
            }
            i = src.below(n);
        }
        match bad {
            Some(b) => {
                toks[i].content = b.clone();
                let tag = toks[i].tag.clone();
                StructCase {
                    mt: mt.to_string(),
                    toks,
                    kind: "corrupt".into(),
                    tag,
                    content: b,
                    crlf,
                    base_accepted,
                    ctx: String::new(),
                }
            }
            None => StructCase {
                mt: mt.to_string(),
                toks,
                kind: "none".into(),
                tag: String::new(),
                content: String::new(),
                crlf,
                base_accepted,
                ctx: String::new(),
            },
        }
    }
}

fn rendered(e: &ParseError) -> String {
    format!("{} || {} || {}", e, e.debug_report(), e.brief_message())
}

fn names_token(text: &str, tok: &str) -> bool {
    // tok appears delimited by non-alphanumerics
    let b = text.as_bytes();
    let mut start = 0;
    while let Some(p) = text[start..].find(tok) {
        let a = start + p;
        let z = a + tok.len();
        let left_ok = a == 0 || !b[a - 1].is_ascii_alphanumeric();
        let right_ok = z >= b.len() || !b[z].is_ascii_alphanumeric();
        if left_ok && right_ok {
            return true;
        }
        start = a + 1;
    }
    false
}

pub fn oracle(c: &StructCase, obs: &mut Obs) -> Vec<Violation> {
    let mut out = Vec::new();
    if c.kind == "none" {
        obs.excluded("no-invalid-content-found");
        return out;
    }
    let text = c.text();
    let tags: Vec<String> = c.toks.iter().map(|t| t.tag.clone()).collect();
    // the unmodified message must be accepted (otherwise the failure belongs to C03, and the error we see may be about another field)
    if !c.base_accepted {
        obs.excluded("base-message-not-accepted");
        return out;
    }
    let res = (msg_ops(&c.mt).parse_block4)(&text);
    obs.class(&format!(
        "{}:{}",
        c.kind,
        if res.is_ok() { "accepted" } else { "rejected" }
    ));
    obs.sample(
        &c.kind,
        || json!({"mt": c.mt, "kind": c.kind, "tag": c.tag, "text": text}),
    );
    let mt = &c.mt;
    if c.kind == "delete" {
        if in_language(mt, &tags) {
            // the remaining text is still a well-formed message of the type (e.g. one of two repetitions deleted)
            obs.excluded("deletion-leaves-valid-layout");
            return out;
        }
        // mandatory by the SWIFT layout, but an Option in the library's own struct documentation: undetermined
        let lenient: &[(&str, &str)] = &[("202", "50"), ("104", "32B")];
        if lenient
            .iter()
            .any(|(m, t)| *m == mt.as_str() && c.tag.starts_with(t))
            && res.is_ok()
        {
            obs.excluded("slot-optional-in-library-documentation");
            return out;
        }
        obs.nontrivial_str(&format!("{}|{}", c.kind, text));
        match res {
            Ok(_) => out.push(viol(
                format!("C09|MT{mt}|deleted:{}@{}|accepted", c.tag, c.ctx),
                format!("message without mandatory {} accepted:\n{}", c.tag, text),
            )),
            Err(LibErr::Parse(e)) => {
                let r = rendered(&e);
                let base = &c.tag[0..2];
                let structured = match &e {
                    ParseError::MissingRequiredField { field_tag, .. } => Some(field_tag.clone()),
                    ParseError::InvalidFieldFormat(b) => Some(b.field_tag.clone()),
                    _ => None,
                };
                let names = structured
                    .as_deref()
                    .map(|t| t == c.tag || (t.len() >= 2 && &t[0..2] == base))
                    .unwrap_or(false)
                    || names_token(&r, &c.tag)
                    || names_token(&r, base);
                if !names {
                    let what = structured
                        .map(|t| format!("wrong-tag:{t}"))
                        .unwrap_or("no-tag".to_string());
                    out.push(viol(
                        format!("C09|MT{mt}|deleted:{}@{}|{}", c.tag, c.ctx, what),
                        format!(
                            "error does not identify the missing {}: {}\n{}",
                            c.tag, e, text
                        ),
                    ));
                } else if !(names_token(&r, mt) || names_token(&r, &format!("MT{mt}"))) {
                    out.push(viol(
                        format!("C09|MT{mt}|deleted:{}@{}|no-type", c.tag, c.ctx),
                        format!("error does not carry the message type: {}", e),
                    ));
                }
            }
            Err(_) => {}
        }
    } else {
        obs.nontrivial_str(&format!("{}|{}", c.kind, text));
        match res {
            Ok(_) => out.push(viol(
                format!("C09|MT{mt}|corrupt:{}|accepted", c.tag),
                format!(
                    "field {} with invalid content {:?} accepted:\n{}",
                    c.tag, c.content, text
                ),
            )),
            Err(LibErr::Parse(e)) => match &e {
                ParseError::InvalidFieldFormat(b) => {
                    // the tag of a corrupted field is fully known (option letter included), and
                    // every InvalidFieldFormat site of the parser is given the full tag
                    let tag_ok = b.field_tag == c.tag;
                    if !tag_ok {
                        out.push(viol(
                            format!("C09|MT{mt}|corrupt:{}|wrong-tag:{}", c.tag, b.field_tag),
                            format!("error names {} instead of {}: {}", b.field_tag, c.tag, e),
                        ));
                    } else if b.value.replace("\r\n", "\n").trim_end() != c.content.trim_end() {
                        out.push(viol(
                            format!("C09|MT{mt}|corrupt:{}|wrong-value", c.tag),
                            format!(
                                "error carries {:?}, the field content is {:?}",
                                b.value, c.content
                            ),
                        ));
                    }
                }
                other => {
                    let v = match other {
                        ParseError::MissingRequiredField { .. } => "MissingRequiredField",
                        ParseError::InvalidFormat { .. } => "InvalidFormat",
                        _ => "other",
                    };
                    out.push(viol(
                        format!("C09|MT{mt}|corrupt:{}|wrong-variant:{}", c.tag, v),
                        format!("invalid content of {} reported as {}: {}", c.tag, v, e),
                    ));
                }
            },
            Err(_) => {}
        }
    }
    out
}

pub fn run(ctx: &Ctx) {
    ctx.add_rule("per message type: a valid generated message with one mandatory field occurrence deleted (judged when the remaining tag sequence is outside the layout language) or one field occurrence's content replaced by a content its own parser rejects; must be Err; deletion: error identifies the tag (structured field_tag or token in Display/debug_report/brief_message, option letter aside) and the type; corruption: InvalidFieldFormat with exactly that tag (option letter included) and that content; non-trivial = every judged case; distinct by (kind, text)");
    let to_json = |c: &StructCase| serde_json::to_value(c).unwrap();
    ctx.run_generated(
        "struct",
        MSGS.len(),
        ctx.n(2500, 60000),
        1800,
        &|sh, src: &mut Src| generate(mt_of_shard(sh), src),
        &oracle,
        &to_json,
    );
}

pub fn replay(_ctx: &Ctx, _sub: &str, case: &Value) -> Vec<Violation> {
    let c: StructCase = serde_json::from_value(case.clone()).expect("replay case");
    oracle(&c, &mut Obs::default())
}
