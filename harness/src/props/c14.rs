//! C14 — field option letters decide the variant and are preserved.
use crate::choice::Src;
use crate::driver::{Ctx, Obs, Violation, viol};
use crate::fieldkit::*;
use crate::lib_api::{MSGS, field_ops, msg_ops};
use crate::msgkit::*;
use crate::refs::tokenize;
use serde::{Deserialize, Serialize};
use serde_json::{Value, json};

#[derive(Clone, Debug, Serialize, Deserialize)]
pub struct OptCase {
    pub family: String,
    pub base: String,
    /// letter passed ("" = no letter option, None = parse() without variant)
    pub letter: Option<String>,
    /// family member the content was generated for
    pub content_for: String,
    pub content: String,
}

/// contents that fit more than one option of the party-field families
pub const AMBIGUOUS: &[&str] = &[
    "DEUTDEFF",
    "ACMECORP",
    "PANASONICJP",
    "/ACC123\nDEUTDEFF",
    "/ACC123\nACMECORP",
    "/ACC123\nJOHN DOE",
    "1/JOHN DOE\n2/MAIN STREET",
    "/ACC123\n1/JOHN DOE\n2/MAIN STREET",
    "/ACC",
    "JOHN DOE\nDEUTDEFFXXX",
    "ACCOUNT123\nDEUTDEFF",
    "/C/12345\nDEUTDEFF",
    "/12345678\nCITIBANK\nNEW YORK",
    "BARCLAYS\nLONDON",
    // BIC-length words that are not BICs (a digit among the first six characters)
    "12345678",
    "BOX12345",
    "00123456789",
];

pub fn generate(shard: usize, src: &mut Src) -> OptCase {
    let (fam, base, members) = FAMILIES[shard % FAMILIES.len()];
    let (_, conc) = members[src.below(members.len())];
    // content: valid for `conc`, sometimes deliberately ambiguous
    let mut content = gen_valid(conc, src).content;
    if src.chance(1, 4) {
        content = src
            .pick(AMBIGUOUS)
            .to_string();
    }
    let letter = match src.below(8) {
        0 => None,
        1 => Some(src.pick_char("EGHJMNPRSTZ").to_string()), // mostly foreign letters
        _ => Some(members[src.below(members.len())].0.to_string()),
    };
    OptCase {
        family: fam.to_string(),
        base: base.to_string(),
        letter,
        content_for: conc.to_string(),
        content,
    }
}

pub fn oracle(c: &OptCase, obs: &mut Obs) -> Vec<Violation> {
    let mut out = Vec::new();
    let ops = field_ops(&c.family);
    let members = FAMILIES.iter().find(|(e, _, _)| *e == c.family).unwrap().2;
    let fam = &c.family;
    // which members' own parsers accept the content
    let accepting: Vec<&str> = members
        .iter()
        .filter(|(_, conc)| (field_ops(conc).parse)(&c.content).is_ok())
        .map(|(l, _)| *l)
        .collect();
    if !accepting.is_empty() {
        obs.nontrivial_str(&format!("{fam}|{:?}|{}", c.letter, c.content));
    }
    obs.class(match accepting.len() {
        0 => "accepted-by:0",
        1 => "accepted-by:1",
        _ => "accepted-by:2+",
    });
    obs.sample(if accepting.len() > 1 { "ambiguous" } else { "plain" }, || json!({"family": fam, "letter": c.letter, "content": c.content, "accepted_by": accepting}));
    match &c.letter {
        Some(l) => {
            let in_family = members.iter().any(|(m, _)| m == l);
            let r = (ops.parse_variant)(&c.content, Some(l.as_str()), Some(&c.base));
            match r {
                Ok(v) => {
                    let tag = split_swift(&v.swift).map(|x| x.0).unwrap_or_default();
                    let want = format!("{}{}", c.base, l);
                    if !in_family {
                        out.push(viol(
                            format!("C14|{fam}|foreign-letter-coerced"),
                            format!(
                                "letter {l:?} is not an option of {fam}, yet {:?} parsed as {tag}",
                                c.content
                            ),
                        ));
                    } else if tag != want {
                        out.push(viol(
                            format!(
                                "C14|{fam}|letter-{}-gives-{}",
                                if l.is_empty() { "none" } else { l },
                                tag
                            ),
                            format!("{:?} with letter {l:?} came back as {tag}", c.content),
                        ));
                    } else if !accepting.contains(&l.as_str()) {
                        out.push(viol(format!("C14|{fam}|accepts-what-{}-rejects", want), format!("the concrete parser of {want} rejects {:?} but the family accepts it with that letter", c.content)));
                    }
                }
                Err(e) => {
                    if in_family && accepting.contains(&l.as_str()) && !e.is_panic() {
                        out.push(viol(
                            format!("C14|{fam}|rejected-valid|{}{}", c.base, l),
                            format!(
                                "{:?} is valid for option {l:?} but rejected: {}",
                                c.content,
                                e.text()
                            ),
                        ));
                    }
                }
            }
        }
        None => {
            // no letter: any variant returned must be one whose own parser accepts the content, and must round trip
            if let Ok(v) = (ops.parse)(&c.content) {
                let (tag, body) = split_swift(&v.swift).unwrap_or_default();
                let l2 = tag.strip_prefix(c.base.as_str()).unwrap_or("?").to_string();
                match members.iter().find(|(m, _)| *m == l2) {
                    None => out.push(viol(
                        format!("C14|{fam}|untagged-gives-unknown-option|{tag}"),
                        format!("{:?} -> {}", c.content, v.swift),
                    )),
                    Some((_, conc)) => {
                        if (field_ops(conc).parse)(&c.content).is_err() {
                            out.push(viol(
                                format!("C14|{fam}|untagged-gives-{tag}-which-rejects-it"),
                                format!(
                                    "{:?} returned as {tag}, whose own parser rejects it",
                                    c.content
                                ),
                            ));
                        }
                        match (ops.parse_variant)(&body, Some(l2.as_str()), Some(&c.base)) {
                            Ok(v2) => {
                                if v2.json != v.json {
                                    out.push(viol(
                                        format!("C14|{fam}|untagged-roundtrip-differs|{tag}"),
                                        format!("{:?}: {} vs {}", c.content, v.json, v2.json),
                                    ));
                                }
                            }
                            Err(e) => {
                                if !e.is_panic()
                                    && spec_of(conc).g.verdict(&c.content)
                                        != crate::spec::Verdict::MustReject
                                {
                                    out.push(viol(
                                        format!("C14|{fam}|untagged-roundtrip-rejected|{tag}"),
                                        format!(
                                            "{:?} -> {:?} rejected with its own letter: {}",
                                            c.content,
                                            v.swift,
                                            e.text()
                                        ),
                                    ));
                                }
                            }
                        }
                    }
                }
            }
        }
    }
    out
}

/// message level: every multi-option slot, each documented letter and foreign letters
pub fn msg_oracle(c: &MutCase, obs: &mut Obs) -> Vec<Violation> {
    let mut out = Vec::new();
    let text = c.text();
    let r = (msg_ops(&c.mt).parse_block4)(&text);
    obs.class(&format!(
        "msg:{}:{}",
        c.mutation,
        if r.is_ok() { "accepted" } else { "rejected" }
    ));
    if let Ok(b) = r {
        obs.nontrivial_str(&text);
        let (_, toks) = tokenize(&b.mt_string);
        if toks.len() == c.toks.len() {
            for (a, o) in c.toks.iter().zip(toks.iter()) {
                if a.tag != o.tag && a.tag[0..2] == o.tag[0..2] {
                    out.push(viol(
                        format!("C14|msg|MT{}|{}-became-{}", c.mt, a.tag, o.tag),
                        format!(
                            "field written as {} serialised as {}:\n{}",
                            a.tag, o.tag, text
                        ),
                    ));
                }
            }
        }
        // the variant also survives the typed value's JSON form: JSON -> typed -> MT keeps every tag
        if let Ok(b2) = (msg_ops(&c.mt).body_from_json)(&b.json) {
            let (_, toks2) = tokenize(&b2.mt_string);
            if toks2.len() == toks.len() {
                for (a, o) in toks.iter().zip(toks2.iter()) {
                    if a.tag != o.tag && a.tag[0..2] == o.tag[0..2] {
                        out.push(viol(
                            format!("C14|msg|MT{}|json:{}-became-{}", c.mt, a.tag, o.tag),
                            format!(
                                "field parsed as {} comes back from its JSON as {}:\n{}",
                                a.tag, o.tag, text
                            ),
                        ));
                    }
                }
            }
        }
    }
    out
}

pub fn run(ctx: &Ctx) {
    ctx.add_rule("field level: the 25 option families x (each letter of the family | a foreign letter | no letter) x contents valid for a member of the family (incl. deliberately ambiguous contents: BIC-shaped name lines, single slash-lines, account+BIC, numbered lines); message level: valid messages (all multi-option slots, every documented letter), messages in which one multi-option slot carries a content that is valid for the option written and shaped like another option of its family, and messages with one option letter replaced by a foreign one; non-trivial = content accepted by at least one member; distinct by (family, letter, content)");
    let to_json = |c: &OptCase| serde_json::to_value(c).unwrap();
    ctx.run_generated(
        "family",
        FAMILIES.len(),
        ctx.n(6000, 120000),
        300,
        &generate,
        &oracle,
        &to_json,
    );
    let to_json2 = |c: &MutCase| serde_json::to_value(c).unwrap();
    // a multi-option slot of a valid message gets a content that is valid for the option written AND
    // shaped like another option of the family (BIC-shaped name line, account + BIC, numbered lines)
    ctx.run_generated(
        "message-ambiguous",
        MSGS.len(),
        ctx.n(1500, 30000),
        1800,
        &|sh, src: &mut Src| {
            let mt = mt_of_shard(sh);
            let m = gen_valid_msg(mt, src);
            let mut toks = toks_of(&m);
            let slots: Vec<usize> = m
                .fields
                .iter()
                .enumerate()
                .filter(|(_, f)| f.n_options >= 2)
                .map(|(i, _)| i)
                .collect();
            let mut mutation = "valid".to_string();
            if !slots.is_empty() {
                let i = slots[src.below(slots.len())];
                if let Some(sp) = crate::fieldkit::spec_of_tag(&toks[i].tag) {
                    let fits: Vec<&str> = AMBIGUOUS
                        .iter()
                        .copied()
                        .filter(|c| sp.g.verdict(c) == crate::spec::Verdict::MustAccept)
                        .collect();
                    if !fits.is_empty() {
                        toks[i].content = fits[src.below(fits.len())].to_string();
                        mutation = format!("ambiguous-content:{}", toks[i].tag);
                    }
                }
            }
            MutCase {
                mt: mt.to_string(),
                toks,
                mutation,
                tag: String::new(),
                bad_content: false,
                crlf: src.chance(1, 5),
                wrapper: true,
                envelope: false,
            }
        },
        &msg_oracle,
        &to_json2,
    );
    ctx.run_generated(
        "message",
        MSGS.len(),
        ctx.n(1500, 30000),
        1800,
        &|sh, src: &mut Src| {
            let mt = mt_of_shard(sh);
            // valid, or with a foreign option letter
            let mut c = mutate_msg(mt, src);
            if c.mutation != "valid" && c.mutation != "foreign-option-letter" {
                let m = gen_valid_msg(mt, src);
                c.toks = toks_of(&m);
                c.mutation = "valid".into();
                c.bad_content = false;
            }
            c.envelope = false;
            c
        },
        &msg_oracle,
        &to_json2,
    );
}

pub fn replay(_ctx: &Ctx, sub: &str, case: &Value) -> Vec<Violation> {
    if sub == "message" {
        let c: MutCase = serde_json::from_value(case.clone()).expect("replay case");
        msg_oracle(&c, &mut Obs::default())
    } else {
        let c: OptCase = serde_json::from_value(case.clone()).expect("replay case");
        oracle(&c, &mut Obs::default())
    }
}
