//! C07 — parsing is total: any input gives a value or an error, never a panic or hang.
use crate::choice::Src;
use crate::driver::{Ctx, Obs, Violation, viol};
use crate::fieldkit::*;
use crate::lib_api::*;
use crate::msgkit::*;
use crate::props::c10::{B3_TAGS, B5_TAGS, gen_b1, gen_b2, gen_b3_value, gen_b5_value, gen_env};
use serde::{Deserialize, Serialize};
use serde_json::{Value, json};

#[derive(Clone, Debug, Serialize, Deserialize)]
pub struct TotalCase {
    /// "message" | "block4" | "field" | "header" | "json"
    pub kind: String,
    /// message type / field type / header kind
    pub target: String,
    pub input: String,
    pub mutation: String,
}

const SPECIALS: &[&str] = &[
    "é", "€", "𝟙", "٣", "\u{301}", ":", "{", "}", "-", "\n", "\r\n", "/", ",", " ", "\t", "\u{0}",
    "+", "\u{feff}", "ß", "İ",
];

/// byte/char-level mutation of a text (kept valid UTF-8)
pub fn mutate_text(s: &str, src: &mut Src) -> (String, String) {
    let cs: Vec<char> = s.chars().collect();
    let n = cs.len();
    let pos = |src: &mut Src| -> usize {
        match src.below(6) {
            0 => 0,
            1 => n,
            2 => n.saturating_sub(1),
            3 => src.below(n.min(40) + 1),
            _ => src.below(n + 1),
        }
    };
    match src.below(10) {
        9 => {
            // one line loses its last one to three characters (a closing delimiter, the end of a code)
            let lines: Vec<&str> = s.split('\n').collect();
            if lines.is_empty() {
                return (String::new(), "noop".into());
            }
            let i = src.below(lines.len());
            let k = 1 + src.below(3);
            let out: Vec<String> = lines
                .iter()
                .enumerate()
                .map(|(j, l)| {
                    if j == i {
                        let cs: Vec<char> = l.chars().collect();
                        cs[..cs.len().saturating_sub(k)].iter().collect()
                    } else {
                        l.to_string()
                    }
                })
                .collect();
            (out.join("\n"), "line-end-cut".into())
        }
        0 => {
            let p = pos(src);
            (cs[..p].iter().collect(), "truncate".into())
        }
        1 | 2 | 3 => {
            let p = pos(src);
            let sp = *src.pick(SPECIALS);
            let mut t: String = cs[..p].iter().collect();
            t.push_str(sp);
            t.extend(cs[p..].iter());
            (
                t,
                format!(
                    "insert-{}",
                    if sp.is_ascii() { "ascii" } else { "multibyte" }
                ),
            )
        }
        4 => {
            if n == 0 {
                return (String::new(), "noop".into());
            }
            let p = pos(src).min(n - 1);
            let sp = *src.pick(SPECIALS);
            let mut t: String = cs[..p].iter().collect();
            t.push_str(sp);
            t.extend(cs[p + 1..].iter());
            (
                t,
                format!(
                    "replace-{}",
                    if sp.is_ascii() { "ascii" } else { "multibyte" }
                ),
            )
        }
        5 => {
            let a = pos(src);
            let b = (a + 1 + src.below(20)).min(n);
            let mut t: String = cs[..a.min(b)].iter().collect();
            t.extend(cs[b..].iter());
            (t, "delete-range".into())
        }
        6 => {
            let a = pos(src);
            let b = (a + 1 + src.below(30)).min(n);
            let mut t: String = cs[..b].iter().collect();
            t.extend(cs[a.min(b)..b].iter());
            t.extend(cs[b..].iter());
            (t, "duplicate-range".into())
        }
        7 => {
            // only structural characters
            let k = src.below(60);
            let t: String = (0..k).map(|_| src.pick_char(":{}-\n\r1234A")).collect();
            (t, "structural-soup".into())
        }
        _ => (s.to_string(), "unmutated".into()),
    }
}

pub fn generate(shard: usize, src: &mut Src) -> TotalCase {
    let kind = src.below(10);
    match kind {
        0 | 1 | 2 => {
            let mt = mt_of_shard(shard);
            let e = gen_env(mt, src);
            let mut text = e.text();
            if src.flip() {
                // a richer body than the minimal one; half of those with rule-relevant contents (code
                // words, codes with narrative) so that the validation paths see their own vocabulary
                let m = if src.flip() {
                    crate::props::c04::gen_rule_msg(mt, src)
                } else {
                    gen_valid_msg(mt, src)
                };
                let body: String = m
                    .fields
                    .iter()
                    .map(|f| format!(":{}:{}\n", f.tag, f.content))
                    .collect();
                text = format!("{{1:{}}}{{2:{}}}{{4:\n{}-}}", e.b1, e.b2, body);
            }
            let (t, m) = mutate_text(&text, src);
            TotalCase {
                kind: "message".into(),
                target: mt.to_string(),
                input: t,
                mutation: m,
            }
        }
        3 | 4 => {
            let mt = mt_of_shard(shard);
            let m = if src.flip() {
                crate::props::c04::gen_rule_msg(mt, src)
            } else {
                gen_valid_msg(mt, src)
            };
            let (t, mu) = mutate_text(&m.text(src.flip(), src.flip()), src);
            TotalCase {
                kind: "block4".into(),
                target: mt.to_string(),
                input: t,
                mutation: mu,
            }
        }
        5 | 6 => {
            let f = &FIELDS[src.below(FIELDS.len())];
            let conc = match FAMILIES.iter().find(|(e, _, _)| *e == f.name) {
                Some((_, _, mem)) => mem[src.below(mem.len())].1,
                None => f.name,
            };
            let c = if src.flip() {
                gen_valid(conc, src)
            } else {
                random_content(conc, src)
            };
            let (t, mu) = mutate_text(&c.content, src);
            TotalCase {
                kind: "field".into(),
                target: f.name.to_string(),
                input: t,
                mutation: mu,
            }
        }
        7 => {
            let k = *src.pick(&[1u8, 2, 3, 5]);
            let text = match k {
                1 => gen_b1(src),
                2 => gen_b2(mt_of_shard(shard), src),
                3 => {
                    let mut s = String::new();
                    for t in B3_TAGS {
                        if src.flip() {
                            s.push_str(&format!("{{{}:{}}}", t, gen_b3_value(t, src)));
                        }
                    }
                    s
                }
                _ => {
                    let mut s = String::new();
                    for t in B5_TAGS {
                        if src.flip() {
                            s.push_str(&format!("{{{}:{}}}", t, gen_b5_value(t, src)));
                        }
                    }
                    s
                }
            };
            let (t, mu) = mutate_text(&text, src);
            TotalCase {
                kind: "header".into(),
                target: k.to_string(),
                input: t,
                mutation: mu,
            }
        }
        _ => {
            // JSON of a valid message with one leaf or key damaged
            let mt = mt_of_shard(shard);
            let e = gen_env(mt, src);
            let mut e2 = e.clone();
            e2.near_miss = String::new();
            // two times in three a fully generated body (optional fields, repetitions) instead of the minimal one
            if src.chance(2, 3) {
                let m = gen_valid_msg(mt, src);
                e2.body = m
                    .fields
                    .iter()
                    .map(|f| format!(":{}:{}\n", f.tag, f.content))
                    .collect::<String>();
                e2.marker = String::new();
            }
            let j = match (msg_ops(mt).parse_full)(&e2.text()) {
                Ok(m) => m.json,
                Err(_) => json!({"message_type": mt}),
            };
            let mut v = j.clone();
            let mu = damage_json(&mut v, src);
            TotalCase {
                kind: "json".into(),
                target: mt.to_string(),
                input: v.to_string(),
                mutation: mu,
            }
        }
    }
}

fn paths(v: &Value, cur: Vec<String>, out: &mut Vec<Vec<String>>) {
    match v {
        Value::Object(o) => {
            for (k, x) in o {
                let mut p = cur.clone();
                p.push(k.clone());
                out.push(p.clone());
                paths(x, p, out);
            }
        }
        Value::Array(a) => {
            for (i, x) in a.iter().enumerate() {
                let mut p = cur.clone();
                p.push(i.to_string());
                out.push(p.clone());
                paths(x, p, out);
            }
        }
        _ => {}
    }
}

fn at<'a>(v: &'a mut Value, p: &[String]) -> Option<&'a mut Value> {
    let mut cur = v;
    for k in p {
        cur = match cur {
            Value::Object(o) => o.get_mut(k)?,
            Value::Array(a) => a.get_mut(k.parse::<usize>().ok()?)?,
            _ => return None,
        };
    }
    Some(cur)
}

pub fn damage_json(v: &mut Value, src: &mut Src) -> String {
    let mut ps = Vec::new();
    paths(v, Vec::new(), &mut ps);
    if ps.is_empty() {
        return "noop".into();
    }
    let p = ps[src.below(ps.len())].clone();
    // a string of the same byte length with a two-byte character at some offset: passes length checks
    // that count bytes and then meets slicing by byte offsets
    let same_len: Option<Value> = at(v, &p).and_then(|x| x.as_str().map(|t| t.to_string())).and_then(|t| {
        let n = t.len();
        if n < 2 || !t.is_ascii() {
            return None;
        }
        let off = src.below(n - 1);
        let mut out = String::new();
        out.push_str(&t[..off]);
        out.push('é');
        out.push_str(&t[off + 2..]);
        Some(json!(out))
    });
    // structural damage: a whole optional member (an object or an array, e.g. the first of two sibling
    // fields or a complete sequence occurrence) set to null, the rest untouched
    let containers: Vec<Vec<String>> = ps
        .iter()
        .filter(|q| {
            let mut cur: &Value = v;
            for k in q.iter() {
                cur = match cur {
                    Value::Object(o) => match o.get(k) {
                        Some(x) => x,
                        None => return false,
                    },
                    Value::Array(a) => match k.parse::<usize>().ok().and_then(|i| a.get(i)) {
                        Some(x) => x,
                        None => return false,
                    },
                    _ => return false,
                };
            }
            cur.is_object() || cur.is_array()
        })
        .cloned()
        .collect();
    if !containers.is_empty() && src.chance(1, 5) {
        let q = containers[src.below(containers.len())].clone();
        if let Some(slot) = at(v, &q) {
            *slot = Value::Null;
        }
        return "json-member-null".into();
    }
    let (name, newv): (&str, Value) = match src.below(12) {
        10 | 11 if same_len.is_some() => ("same-length-multibyte", same_len.unwrap()),
        0 => ("null", Value::Null),
        1 => ("empty-string", json!("")),
        2 => ("long-string", json!("X".repeat(300))),
        3 => ("non-ascii-string", json!("é€𝟙٣")),
        4 => ("short-string", json!("A")),
        5 => ("number", json!(-1.5e300)),
        6 => ("array", json!([])),
        7 => ("object", json!({})),
        8 => ("bool", json!(true)),
        _ => (
            "multibyte-prefix",
            json!("éBCDEFGHIJKLMNOPQRSTUVWXYZ0123456789"),
        ),
    };
    if let Some(slot) = at(v, &p) {
        *slot = newv;
    }
    format!("json-{name}")
}

fn panic_viol(entry: &str, e: &LibErr, input: &str) -> Option<Violation> {
    if let LibErr::Panic(p) = e {
        let shown: String = input.chars().take(300).collect();
        Some(viol(
            format!("C07|panic|{}|{}", p.kind, p.lib_frame),
            format!(
                "{} panicked: {} at {} on input {:?}",
                entry, p.msg, p.location, shown
            ),
        ))
    } else {
        None
    }
}

fn after_error(e: &LibErr, input: &str, out: &mut Vec<Violation>) {
    if let LibErr::Parse(pe) = e {
        if let Err(r) = render_error(pe, input) {
            if let Some(v) = panic_viol("error rendering", &r, input) {
                out.push(v);
            }
        }
    }
}

// ---------------------------------------------------------------- non-termination
//
// The property includes "no non-terminating loop". A worker that is inside the library for longer than
// HANG_LIMIT seconds on one (at most a few KB long) input is reported as a violation with that input as
// the replay case; ordinary cases take micro- to milliseconds, so the limit is four to five orders of
// magnitude above anything load can explain. (The stuck thread cannot be stopped: the process reports
// and exits.)
use std::collections::HashMap;
use std::sync::{Mutex, OnceLock};
use std::thread::ThreadId;
use std::time::Instant;

static INFLIGHT: OnceLock<Mutex<HashMap<ThreadId, (Instant, String)>>> = OnceLock::new();
static MONITORING: std::sync::atomic::AtomicBool = std::sync::atomic::AtomicBool::new(false);

pub fn hang_limit_s() -> u64 {
    std::env::var("VERIF_HANG_S")
        .ok()
        .and_then(|s| s.parse().ok())
        .unwrap_or(120)
}

fn inflight() -> &'static Mutex<HashMap<ThreadId, (Instant, String)>> {
    INFLIGHT.get_or_init(|| Mutex::new(HashMap::new()))
}

pub fn hang_signature(kind: &str) -> String {
    format!("C07|hang|{kind}")
}

thread_local! {
    static JOURNAL: std::cell::RefCell<Option<std::fs::File>> = const { std::cell::RefCell::new(None) };
}

/// write the case this thread is about to run to its journal file (read by the supervising process when
/// the worker is killed by a signal)
fn journal(desc: &str) {
    use std::io::{Seek, SeekFrom, Write};
    let dir = match std::env::var("VERIF_C07_JOURNAL") {
        Ok(d) => d,
        Err(_) => return,
    };
    JOURNAL.with(|j| {
        let mut j = j.borrow_mut();
        if j.is_none() {
            let name = format!("{dir}/t-{:?}.json", std::thread::current().id())
                .replace(['(', ')'], "");
            *j = std::fs::File::create(name).ok();
        }
        if let Some(f) = j.as_mut() {
            let _ = f.seek(SeekFrom::Start(0));
            let _ = f.write_all(desc.as_bytes());
            let _ = f.set_len(desc.len() as u64);
        }
    });
}

pub fn oracle(c: &TotalCase, obs: &mut Obs) -> Vec<Violation> {
    let on = MONITORING.load(std::sync::atomic::Ordering::Relaxed);
    let tid = std::thread::current().id();
    if on {
        let desc = serde_json::to_string(c).unwrap_or_default();
        journal(&desc);
        inflight().lock().unwrap().insert(tid, (Instant::now(), desc));
    }
    let out = oracle_inner(c, obs);
    if on {
        inflight().lock().unwrap().remove(&tid);
    }
    out
}

/// Watches the in-flight table while `body` runs; a case over the limit ends the process with a
/// VIOLATION (or KNOWN-FINDING) line, the replay file and the evidence written so far.
fn with_hang_monitor(ctx: &Ctx, body: &(dyn Fn() + Sync)) {
    let done = std::sync::atomic::AtomicBool::new(false);
    let limit = hang_limit_s();
    MONITORING.store(true, std::sync::atomic::Ordering::SeqCst);
    std::thread::scope(|s| {
        s.spawn(|| {
            while !done.load(std::sync::atomic::Ordering::SeqCst) {
                std::thread::sleep(std::time::Duration::from_millis(500));
                let stuck: Option<(u64, String)> = inflight()
                    .lock()
                    .unwrap()
                    .values()
                    .filter(|(t, _)| t.elapsed().as_secs() >= limit)
                    .map(|(t, d)| (t.elapsed().as_secs(), d.clone()))
                    .next();
                if let Some((secs, desc)) = stuck {
                    let case: Value = serde_json::from_str(&desc).unwrap_or(Value::Null);
                    let kind = case["kind"].as_str().unwrap_or("?").to_string();
                    let sig = hang_signature(&kind);
                    let detail = format!(
                        "an entry point did not return within {secs} s on a {}-byte input (target {})",
                        case["input"].as_str().map(|x| x.len()).unwrap_or(0),
                        case["target"].as_str().unwrap_or("?")
                    );
                    let mut obs = Obs::default();
                    obs.eval();
                    obs.nontrivial_str(&desc);
                    ctx.report(&mut obs, "mutated-inputs", viol(sig, detail), &|| case.clone());
                    ctx.total.lock().unwrap().merge(obs);
                    let code = ctx.finish();
                    std::process::exit(code);
                }
            }
        });
        body();
        done.store(true, std::sync::atomic::Ordering::SeqCst);
    });
    MONITORING.store(false, std::sync::atomic::Ordering::SeqCst);
}

fn oracle_inner(c: &TotalCase, obs: &mut Obs) -> Vec<Violation> {
    let mut out = Vec::new();
    obs.class(&format!("{}:{}", c.kind, c.mutation));
    if c.input.len() > 1 {
        obs.nontrivial_str(&format!("{}|{}|{}", c.kind, c.target, c.input));
    }
    obs.sample(&format!("{}:{}", c.kind, c.mutation), || json!({"kind": c.kind, "target": c.target, "input": c.input.chars().take(400).collect::<String>()}));
    let x = &c.input;
    macro_rules! chk {
        ($name:expr, $r:expr) => {{
            match $r {
                Ok(_) => {}
                Err(e) => {
                    if let Some(v) = panic_viol($name, &e, x) {
                        out.push(v);
                    }
                    after_error(&e, x, &mut out);
                }
            }
        }};
    }
    match c.kind.as_str() {
        "message" => {
            chk!("parse_auto", parse_auto(x));
            chk!("parse::<T>", (msg_ops(&c.target).parse_full)(x));
            chk!(
                "parse_with_errors",
                (msg_ops(&c.target).parse_with_errors)(x)
            );
            for i in 0..=6u8 {
                chk!("extract_block", extract_block(x, i));
            }
            chk!("parse_mt plugin", plugin_parse(x));
            chk!("validate_mt plugin", plugin_validate(x));
        }
        "block4" => {
            chk!("parse_from_block4", (msg_ops(&c.target).parse_block4)(x));
            match block4_fields(x) {
                Ok(map) => {
                    let ops = vec![
                        TrackerOp::Find("50".into(), Some(vec!["A".into(), "K".into()])),
                        TrackerOp::Take("20".into()),
                        TrackerOp::Find("59".into(), None),
                    ];
                    chk!("tracker", run_tracker(&map, &ops));
                    let (m, cf, hc) = sequence_config(&format!("MT{}", c.target));
                    chk!("split_into_sequences", split_sequences(&map, &m, &cf, hc));
                    chk!("parse_repetitive_sequence", repetitive_sequence(&map, &m));
                }
                Err(e) => {
                    if let Some(v) = panic_viol("parse_block4_fields", &e, x) {
                        out.push(v);
                    }
                    after_error(&e, x, &mut out);
                }
            }
            chk!("normalize_field_tag", normalize_tag(x));
        }
        "field" => {
            let ops = field_ops(&c.target);
            chk!("SwiftField::parse", (ops.parse)(x));
            for l in [None, Some("A"), Some("F"), Some("K"), Some(""), Some("Z")] {
                chk!(
                    "SwiftField::parse_with_variant",
                    (ops.parse_variant)(x, l, Some("50"))
                );
            }
        }
        "header" => {
            let k: u8 = c.target.parse().unwrap_or(1);
            chk!("Header::parse", header_parse(k, x));
        }
        _ => {
            if let Ok(v) = serde_json::from_str::<Value>(x) {
                chk!("from_value", (msg_ops(&c.target).full_from_json)(&v));
                chk!("publish_mt plugin", plugin_publish(&v));
                if let Some(f) = v.get("fields") {
                    chk!("body from_value", (msg_ops(&c.target).body_from_json)(f));
                }
                for (k, key) in [
                    (1u8, "basic_header"),
                    (2, "application_header"),
                    (3, "user_header"),
                    (5, "trailer"),
                ] {
                    if let Some(h) = v.get(key) {
                        chk!("header from_value + Display", header_from_json(k, h));
                    }
                }
            }
        }
    }
    out
}

/// size-scaling families; returns (family, size, seconds)
fn scaling(ctx: &Ctx, obs: &mut Obs) -> Vec<Violation> {
    let mut out = Vec::new();
    let families: Vec<(&str, Box<dyn Fn(usize) -> String>)> = vec![
        (
            "many-fields",
            Box::new(|n| {
                format!(
                    "{{1:F01BANKDEFFAXXX0000000000}}{{2:I940BANKUS33AXXXN}}{{4:\n:20:X\n:25:ACC\n:28C:1\n:60F:C240101USD1,\n{}:62F:C240101USD1,\n-}}",
                    ":61:2401010101C1,NTRFREF\n".repeat(n / 25)
                )
            }),
        ),
        (
            "one-huge-line",
            Box::new(|n| {
                format!(
                    "{{1:F01BANKDEFFAXXX0000000000}}{{2:I199BANKUS33AXXXN}}{{4:\n:20:X\n:79:{}\n-}}",
                    "A".repeat(n)
                )
            }),
        ),
        (
            "deep-braces",
            Box::new(|n| {
                format!(
                    "{{1:F01BANKDEFFAXXX0000000000}}{{2:I199BANKUS33AXXXN}}{{3:{}{}}}{{4:\n:20:X\n:79:A\n-}}",
                    "{".repeat(n),
                    "}".repeat(n)
                )
            }),
        ),
        ("many-block-markers", Box::new(|n| "{1:".repeat(n / 3))),
        ("colons", Box::new(|n| ":".repeat(n))),
        ("newline-colon", Box::new(|n| "\n:".repeat(n / 2))),
    ];
    let sizes: Vec<usize> = if ctx.quick() {
        vec![4096, 8192, 16384, 70_000, 200_000]
    } else {
        vec![4096, 8192, 16384, 65536, 70_000, 200_000, 1 << 20]
    };
    for (name, f) in &families {
        let mut prev: Option<f64> = None;
        for &n in &sizes {
            let x = f(n);
            let t0 = std::time::Instant::now();
            let mut local: Vec<Violation> = Vec::new();
            for r in [
                parse_auto(&x).map(|_| ()),
                extract_block(&x, 4).map(|_| ()),
                extract_block(&x, 3).map(|_| ()),
                (msg_ops("940").parse_block4)(&x).map(|_| ()),
                block4_fields(&x).map(|_| ()),
            ] {
                if let Err(e) = r {
                    if let Some(v) = panic_viol("size-scaling", &e, &format!("{name} n={n}")) {
                        local.push(v);
                    }
                    // every rendering of the error, with the (large) original text as context
                    after_error(&e, &x, &mut local);
                }
            }
            let dt = t0.elapsed().as_secs_f64();
            obs.eval();
            obs.nontrivial_str(&format!("{name}|{n}"));
            obs.sample(
                "scaling",
                || json!({"family": name, "bytes": x.len(), "seconds": dt}),
            );
            out.extend(local);
            // far beyond quadratic: a 16 KB input may not take more than 60 s, and doubling may not
            // multiply a non-trivial time by more than 12
            if n <= 16384 && dt > 60.0 {
                out.push(viol(
                    format!("C07|slow|{name}"),
                    format!("{n} bytes took {dt:.1}s"),
                ));
            }
            if let Some(p) = prev {
                if p > 0.5 && dt / p > 12.0 && n <= 65536 {
                    out.push(viol(
                        format!("C07|growth|{name}"),
                        format!("{} -> {} bytes: {p:.2}s -> {dt:.2}s", n / 2, n),
                    ));
                }
            }
            prev = Some(dt);
        }
    }
    out
}

pub fn run(ctx: &Ctx) {
    ctx.add_rule("valid messages / block-4 texts / field contents / headers / message JSON of all types with one text mutation (truncation, insertion or replacement of ASCII structure characters and 2-, 3-, 4-byte characters at boundary and random offsets, range deletion/duplication, one line cut short at its end, structural soup; half of the richer bodies carry rule-relevant contents) given to every public entry point (parse_auto, parse::<T>, parse_with_errors, extract_block 0..6, parse_from_block4, legacy field map + tracker + sequences, 114 field parsers with and without variant, 4 header parsers, from_value + serialisation + Display, the 3 text-taking plugin functions) and, on every value obtained, to serialisation, validation, JSON conversion; on every error, to all renderings; plus size-scaling families up to 200 KB (1 MB in thorough), whose errors are rendered too; oracle: catch_unwind => no panic; non-trivial = input longer than one character; distinct by (entry kind, target, input)");
    ctx.assume("panic signature = (panic kind, innermost library frame from the symbolised backtrace), line numbers excluded");
    ctx.assume("time: only gross super-quadratic growth is judged (16 KB within 60 s, doubling ratio <= 12 when above 0.5 s)");
    ctx.assume(&format!("non-termination: one case (input of at most a few KB) that keeps an entry point busy for {} s is a violation; such cases otherwise take micro- to milliseconds", hang_limit_s()));
    with_hang_monitor(ctx, &|| {
    let to_json = |c: &TotalCase| serde_json::to_value(c).unwrap();
    ctx.run_generated(
        "mutated-inputs",
        60,
        ctx.n(6000, 150000),
        1800,
        &generate,
        &oracle,
        &to_json,
    );
    // replay the committed corpus of earlier findings (regression inputs)
    let dir = format!("{}/replays/regress/C07", crate::driver::VERIF_ROOT);
    if let Ok(rd) = std::fs::read_dir(&dir) {
        let mut files: Vec<_> = rd.filter_map(|e| e.ok()).map(|e| e.path()).collect();
        files.sort();
        let cases: Vec<TotalCase> = files
            .iter()
            .filter_map(|p| std::fs::read_to_string(p).ok())
            .filter_map(|s| serde_json::from_str::<Value>(&s).ok())
            .filter_map(|v| serde_json::from_value::<TotalCase>(v["case"].clone()).ok())
            .collect();
        ctx.run_enumerated("corpus", 1, &|_| cases.clone(), &oracle, &to_json);
    }
    });
    ctx.run_shards("scaling", 1, &|_, obs| {
        for v in scaling(ctx, obs) {
            ctx.report(obs, "scaling", v, &|| json!({"kind": "scaling"}));
        }
    });
}

pub fn replay(_ctx: &Ctx, _sub: &str, case: &Value) -> Vec<Violation> {
    match serde_json::from_value::<TotalCase>(case.clone()) {
        Ok(c) => {
            // run on a second thread so that a non-terminating case is reported instead of hanging the replay
            let (tx, rx) = std::sync::mpsc::channel();
            let c2 = c.clone();
            std::thread::spawn(move || {
                let _ = tx.send(oracle_inner(&c2, &mut Obs::default()));
            });
            match rx.recv_timeout(std::time::Duration::from_secs(hang_limit_s())) {
                Ok(v) => v,
                Err(_) => vec![viol(
                    hang_signature(&c.kind),
                    format!(
                        "an entry point did not return within {} s on a {}-byte input (target {})",
                        hang_limit_s(),
                        c.input.len(),
                        c.target
                    ),
                )],
            }
        }
        Err(_) => Vec::new(),
    }
}

/// The decoding the libFuzzer targets (harness/fuzz) apply to their byte input, so that a crashing
/// artifact can be re-decided by the deterministic oracle.
pub fn decode_fuzz_input(target: &str, data: &[u8]) -> Option<TotalCase> {
    match target {
        "fz_message" => {
            if data.len() < 2 {
                return None;
            }
            let mt = MSGS[data[0] as usize % MSGS.len()].mt;
            let kind = if data[0] >= 128 { "block4" } else { "message" };
            Some(TotalCase { kind: kind.into(), target: mt.to_string(), input: String::from_utf8_lossy(&data[1..]).to_string(), mutation: "libfuzzer".into() })
        }
        "fz_field" => {
            if data.is_empty() {
                return None;
            }
            let f = FIELDS[data[0] as usize % FIELDS.len()].name;
            Some(TotalCase { kind: "field".into(), target: f.to_string(), input: String::from_utf8_lossy(&data[1..]).to_string(), mutation: "libfuzzer".into() })
        }
        "fz_header" => {
            if data.is_empty() {
                return None;
            }
            let k = [1u8, 2, 3, 5][data[0] as usize % 4];
            Some(TotalCase { kind: "header".into(), target: k.to_string(), input: String::from_utf8_lossy(&data[1..]).to_string(), mutation: "libfuzzer".into() })
        }
        "fz_json" => {
            if data.len() < 8 {
                return None;
            }
            let choices: Vec<u32> = data
                .chunks(4)
                .map(|c| {
                    let mut b = [0u8; 4];
                    b[..c.len()].copy_from_slice(c);
                    u32::from_le_bytes(b)
                })
                .collect();
            let mut src = Src::new(&choices);
            let mt = MSGS[src.below(MSGS.len())].mt;
            let body = crate::props::c10::minimal_body(mt);
            let text = format!("{{1:F01BANKDEFFAXXX0000000000}}{{2:I{}BANKUS33AXXXN}}{{3:{{108:MUR}}{{121:9690a785-2ed8-4101-a5e2-35f94f151d1d}}}}{{4:\n{}-}}{{5:{{CHK:123456789ABC}}}}", mt, body);
            let mut v = (msg_ops(mt).parse_full)(&text).ok()?.json;
            for _ in 0..(1 + src.below(3)) {
                damage_json(&mut v, &mut src);
            }
            Some(TotalCase { kind: "json".into(), target: mt.to_string(), input: v.to_string(), mutation: "libfuzzer".into() })
        }
        _ => None,
    }
}
