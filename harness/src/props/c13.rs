//! C13 — validation entry points are coherent, order-stable and side-effect free.
use crate::choice::Src;
use crate::driver::{Ctx, Obs, Violation, viol};
use crate::lib_api::{MSGS, VErr, msg_ops, parse_auto, plugin_validate};
use crate::msgkit::*;
use serde_json::{Value, json};

fn key(e: &VErr) -> (String, String, String) {
    (e.code.clone(), e.field.clone(), e.message.clone())
}

pub fn oracle(c: &MutCase, obs: &mut Obs) -> Vec<Violation> {
    let mut out = Vec::new();
    let ops = msg_ops(&c.mt);
    let x = c.enveloped();
    let m = match (ops.parse_full)(&x) {
        Ok(m) => m,
        Err(_) => {
            obs.class("rejected-input");
            return out;
        }
    };
    let mt = &c.mt;
    let e2: Vec<_> = m.body.errs_all.iter().map(key).collect();
    let e1: Vec<_> = m.body.errs_first.iter().map(key).collect();
    obs.class(match e2.len() {
        0 => "errors:0",
        1 => "errors:1",
        _ => "errors:2+",
    });
    if !e2.is_empty() {
        obs.nontrivial_str(&x);
    }
    obs.sample(if e2.is_empty() { "clean" } else { "violating" }, || json!({"mt": mt, "text": x, "codes": m.body.errs_all.iter().map(|e| e.code.clone()).collect::<Vec<_>>()}));
    if e1.len() > e2.len() || e2[..e1.len()] != e1[..] {
        out.push(viol(
            format!("C13|MT{mt}|not-prefix"),
            format!(
                "stop-on-first {:?} is not a prefix of the full list {:?}",
                m.body
                    .errs_first
                    .iter()
                    .map(|e| &e.code)
                    .collect::<Vec<_>>(),
                m.body.errs_all.iter().map(|e| &e.code).collect::<Vec<_>>()
            ),
        ));
    }
    if e1.is_empty() != e2.is_empty() {
        out.push(viol(
            format!("C13|MT{mt}|emptiness"),
            format!(
                "stop-on-first has {} errors, full list {}",
                e1.len(),
                e2.len()
            ),
        ));
    }
    if m.body.errs_all != m.body.errs_all_again {
        out.push(viol(
            format!("C13|MT{mt}|unstable"),
            format!(
                "validating again gives a different list (compared with every payload of each error):\n{:?}\nvs\n{:?}",
                m.body.errs_all.iter().map(|e| &e.debug).collect::<Vec<_>>(),
                m.body.errs_all_again.iter().map(|e| &e.debug).collect::<Vec<_>>()
            ),
        ));
    }
    if m.body.json_after_validate != m.body.json
        || m.body.mt_string_after_validate != m.body.mt_string
    {
        out.push(viol(
            format!("C13|MT{mt}|mutated"),
            "validation changed the message".to_string(),
        ));
    }
    // SwiftMessage::validate
    if m.is_valid != e2.is_empty()
        || m.validate_errors.len() != e2.len()
        || m.validate_warnings != 0 && false
    {
        out.push(viol(
            format!("C13|MT{mt}|adapter:SwiftMessage::validate|count"),
            format!(
                "is_valid={} errors={} vs full list {}",
                m.is_valid,
                m.validate_errors.len(),
                e2.len()
            ),
        ));
    } else {
        for (a, b) in m.validate_errors.iter().zip(m.body.errs_all.iter()) {
            if a.0 != b.code {
                out.push(viol(
                    format!("C13|MT{mt}|adapter:SwiftMessage::validate|order"),
                    format!(
                        "rule names {:?} vs codes {:?}",
                        m.validate_errors.iter().map(|x| &x.0).collect::<Vec<_>>(),
                        m.body.errs_all.iter().map(|e| &e.code).collect::<Vec<_>>()
                    ),
                ));
                break;
            }
        }
    }
    // ParsedSwiftMessage::validate
    if let Ok(a) = parse_auto(&x) {
        if a.is_valid != m.is_valid || a.validate_errors != m.validate_errors {
            out.push(viol(
                format!("C13|MT{mt}|adapter:ParsedSwiftMessage::validate"),
                format!("{:?} vs {:?}", a.validate_errors, m.validate_errors),
            ));
        }
    }
    // plugin
    match plugin_validate(&x) {
        Ok(v) => {
            let valid = v.get("valid").and_then(|b| b.as_bool());
            let errs: Vec<String> = v
                .get("errors")
                .and_then(|a| a.as_array())
                .map(|a| {
                    a.iter()
                        .filter_map(|s| s.as_str().map(|t| t.to_string()))
                        .collect()
                })
                .unwrap_or_default();
            if valid != Some(e2.is_empty()) || errs.len() != e2.len() {
                out.push(viol(
                    format!("C13|MT{mt}|adapter:validate_mt|count"),
                    format!(
                        "plugin valid={:?} errors={} vs full list {}: {:?}",
                        valid,
                        errs.len(),
                        e2.len(),
                        errs
                    ),
                ));
            } else {
                for (s, e) in errs.iter().zip(m.body.errs_all.iter()) {
                    if !s.starts_with(&format!("[{}]", e.code)) {
                        out.push(viol(
                            format!("C13|MT{mt}|adapter:validate_mt|order"),
                            format!(
                                "plugin errors {:?} vs codes {:?}",
                                errs,
                                m.body.errs_all.iter().map(|e| &e.code).collect::<Vec<_>>()
                            ),
                        ));
                        break;
                    }
                }
            }
        }
        Err(e) => {
            if !e.is_panic() {
                out.push(viol(
                    format!("C13|MT{mt}|adapter:validate_mt|failed"),
                    e.text(),
                ));
            }
        }
    }
    out
}

pub fn run(ctx: &Ctx) {
    ctx.add_rule("per message type: messages from the layout generator with rule-relevant contents (codes, currencies, amounts drawn from small pools so that rule antecedents fire, see C04) and their structural mutations; accepted => validating seven times in a row gives the same list every time (each error compared with all of its payloads, related fields included), rules(true) is a prefix of rules(false) with equal emptiness, SwiftMessage::validate / ParsedSwiftMessage::validate / validate_mt agree in verdict, count and order, a second call is identical and the message is unchanged; non-trivial = at least one rule violated; distinct by text");
    let to_json = |c: &MutCase| serde_json::to_value(c).unwrap();
    ctx.run_generated(
        "coherence",
        MSGS.len(),
        ctx.n(1500, 40000),
        1800,
        &|sh, src: &mut Src| crate::props::c04::gen_rule_case(mt_of_shard(sh), src),
        &oracle,
        &to_json,
    );
}

pub fn replay(_ctx: &Ctx, _sub: &str, case: &Value) -> Vec<Violation> {
    let c: MutCase = serde_json::from_value(case.clone()).expect("replay case");
    oracle(&c, &mut Obs::default())
}
