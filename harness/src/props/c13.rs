//! C13 — validation entry points are coherent, order-stable and side-effect free.
use crate::choice::Src;
use crate::driver::{Ctx, Obs, Violation, viol};
use crate::lib_api::{MSGS, VErr, msg_ops, parse_auto, plugin_validate};
use crate::msgkit::*;
use serde_json::{Value, json};

fn key(e: &VErr) -> (String, String, String) {
    (e.code.clone(), e.field.clone(), e.message.clone())
}

pub fn oracle(c: &MutCase, obs: &mut Obs) -> Vec<Violation> {
    let mut out = Vec::new();
    let ops = msg_ops(&c.mt);
    let x = c.enveloped();
    let m = match (ops.parse_full)(&x) {
        Ok(m) => m,
        Err(_) => {
            obs.class("rejected-input");
            return out;
        }
    };
    let mt = &c.mt;
    let e2: Vec<_> = m.body.errs_all.iter().map(key).collect();
    let e1: Vec<_> = m.body.errs_first.iter().map(key).collect();
    if c.mutation == "few-violations" && e2.len() == 1 {
        obs.class(&format!("single-violation:MT{}:{}", mt, m.body.errs_all[0].code));
    }
    obs.class(match e2.len() {
        0 => "errors:0",
        1 => "errors:1",
        _ => "errors:2+",
    });
    if !e2.is_empty() {
        obs.nontrivial_str(&x);
    }
    obs.sample(if e2.is_empty() { "clean" } else { "violating" }, || json!({"mt": mt, "text": x, "codes": m.body.errs_all.iter().map(|e| e.code.clone()).collect::<Vec<_>>()}));
    if e1.len() > e2.len() || e2[..e1.len()] != e1[..] {
        out.push(viol(
            format!("C13|MT{mt}|not-prefix"),
            format!(
                "stop-on-first {:?} is not a prefix of the full list {:?}",
                m.body
                    .errs_first
                    .iter()
                    .map(|e| &e.code)
                    .collect::<Vec<_>>(),
                m.body.errs_all.iter().map(|e| &e.code).collect::<Vec<_>>()
            ),
        ));
    }
    if e1.is_empty() != e2.is_empty() {
        out.push(viol(
            format!("C13|MT{mt}|emptiness"),
            format!(
                "stop-on-first has {} errors, full list {}",
                e1.len(),
                e2.len()
            ),
        ));
    }
    if m.body.errs_all != m.body.errs_all_again {
        out.push(viol(
            format!("C13|MT{mt}|unstable"),
            format!(
                "validating again gives a different list (compared with every payload of each error):\n{:?}\nvs\n{:?}",
                m.body.errs_all.iter().map(|e| &e.debug).collect::<Vec<_>>(),
                m.body.errs_all_again.iter().map(|e| &e.debug).collect::<Vec<_>>()
            ),
        ));
    }
    if m.body.json_after_validate != m.body.json
        || m.body.mt_string_after_validate != m.body.mt_string
    {
        out.push(viol(
            format!("C13|MT{mt}|mutated"),
            "validation changed the message".to_string(),
        ));
    }
    // SwiftMessage::validate
    if m.is_valid != e2.is_empty()
        || m.validate_errors.len() != e2.len()
        || m.validate_warnings != 0 && false
    {
        out.push(viol(
            format!("C13|MT{mt}|adapter:SwiftMessage::validate|count"),
            format!(
                "is_valid={} errors={} vs full list {}",
                m.is_valid,
                m.validate_errors.len(),
                e2.len()
            ),
        ));
    } else {
        for (a, b) in m.validate_errors.iter().zip(m.body.errs_all.iter()) {
            if a.0 != b.code {
                out.push(viol(
                    format!("C13|MT{mt}|adapter:SwiftMessage::validate|order"),
                    format!(
                        "rule names {:?} vs codes {:?}",
                        m.validate_errors.iter().map(|x| &x.0).collect::<Vec<_>>(),
                        m.body.errs_all.iter().map(|e| &e.code).collect::<Vec<_>>()
                    ),
                ));
                break;
            }
        }
    }
    // ParsedSwiftMessage::validate
    if let Ok(a) = parse_auto(&x) {
        if a.is_valid != m.is_valid || a.validate_errors != m.validate_errors {
            out.push(viol(
                format!("C13|MT{mt}|adapter:ParsedSwiftMessage::validate"),
                format!("{:?} vs {:?}", a.validate_errors, m.validate_errors),
            ));
        }
    }
    // plugin
    match plugin_validate(&x) {
        Ok(v) => {
            let valid = v.get("valid").and_then(|b| b.as_bool());
            let errs: Vec<String> = v
                .get("errors")
                .and_then(|a| a.as_array())
                .map(|a| {
                    a.iter()
                        .filter_map(|s| s.as_str().map(|t| t.to_string()))
                        .collect()
                })
                .unwrap_or_default();
            if valid != Some(e2.is_empty()) || errs.len() != e2.len() {
                out.push(viol(
                    format!("C13|MT{mt}|adapter:validate_mt|count"),
                    format!(
                        "plugin valid={:?} errors={} vs full list {}: {:?}",
                        valid,
                        errs.len(),
                        e2.len(),
                        errs
                    ),
                ));
            } else {
                for (s, e) in errs.iter().zip(m.body.errs_all.iter()) {
                    if !s.starts_with(&format!("[{}]", e.code)) {
                        out.push(viol(
                            format!("C13|MT{mt}|adapter:validate_mt|order"),
                            format!(
                                "plugin errors {:?} vs codes {:?}",
                                errs,
                                m.body.errs_all.iter().map(|e| &e.code).collect::<Vec<_>>()
                            ),
                        ));
                        break;
                    }
                }
            }
        }
        Err(e) => {
            if !e.is_panic() {
                out.push(viol(
                    format!("C13|MT{mt}|adapter:validate_mt|failed"),
                    e.text(),
                ));
            }
        }
    }
    out
}

/// A rule-relevant message reduced towards a single violation: optional fields are removed one at a
/// time (in an order drawn from the choice sequence) as long as the message stays accepted and its
/// number of errors goes down without reaching zero. The library's own error count only steers this
/// search; it judges nothing.
pub fn few_violations(mt: &str, src: &mut Src) -> MutCase {
    let ops = msg_ops(mt);
    let crlf = src.chance(1, 5);
    let count = |toks: &[crate::refs::Tok]| -> Option<usize> {
        let c = MutCase {
            mt: mt.to_string(),
            toks: toks.to_vec(),
            mutation: String::new(),
            tag: String::new(),
            bad_content: false,
            crlf: false,
            wrapper: true,
            envelope: true,
        };
        (ops.parse_full)(&c.enveloped())
            .ok()
            .map(|m| m.body.errs_all.len())
    };
    let mut best: Option<(usize, Vec<crate::refs::Tok>, Vec<bool>)> = None;
    for _ in 0..4 {
        let m = crate::props::c04::gen_rule_msg(mt, src);
        let toks = toks_of(&m);
        let mand: Vec<bool> = m.fields.iter().map(|f| f.mandatory).collect();
        if let Some(n) = count(&toks) {
            if n > 0 {
                best = Some((n, toks, mand));
                break;
            }
            if best.is_none() {
                best = Some((n, toks, mand));
            }
        }
    }
    let (mut n, mut toks, mut mand) = match best {
        Some(x) => x,
        None => {
            let mut c = crate::props::c04::gen_rule_case(mt, src);
            c.mutation = "few-violations".into();
            return c;
        }
    };
    let mut rounds = 0;
    while n > 1 && rounds < 60 {
        rounds += 1;
        let optional: Vec<usize> = (0..toks.len()).filter(|i| !mand[*i]).collect();
        if optional.is_empty() {
            break;
        }
        // try up to 8 removals from a random starting point
        let start = src.below(optional.len());
        let mut improved = false;
        for k in 0..optional.len().min(8) {
            let i = optional[(start + k) % optional.len()];
            let mut t2 = toks.clone();
            t2.remove(i);
            if let Some(n2) = count(&t2) {
                if n2 >= 1 && n2 < n {
                    toks = t2;
                    mand.remove(i);
                    n = n2;
                    improved = true;
                    break;
                }
            }
        }
        if !improved {
            break;
        }
    }
    MutCase {
        mt: mt.to_string(),
        toks,
        mutation: "few-violations".into(),
        tag: String::new(),
        bad_content: false,
        crlf,
        wrapper: true,
        envelope: true,
    }
}

pub fn run(ctx: &Ctx) {
    ctx.add_rule("per message type: messages from the layout generator with rule-relevant contents (codes, currencies, amounts drawn from small pools so that rule antecedents fire, see C04) and their structural mutations; plus `few-violations`: such a message reduced towards a single violation by removing optional fields while it stays accepted and keeps at least one error; accepted => validating seven times in a row gives the same list every time (each error compared with all of its payloads, related fields included), rules(true) is a prefix of rules(false) with equal emptiness, SwiftMessage::validate / ParsedSwiftMessage::validate / validate_mt agree in verdict, count and order, a second call is identical and the message is unchanged; non-trivial = at least one rule violated; distinct by text");
    let to_json = |c: &MutCase| serde_json::to_value(c).unwrap();
    ctx.run_generated(
        "coherence",
        MSGS.len(),
        ctx.n(1500, 40000),
        1800,
        &|sh, src: &mut Src| crate::props::c04::gen_rule_case(mt_of_shard(sh), src),
        &oracle,
        &to_json,
    );
    // messages with few violations (see few_violations). A message whose only violation belongs to the rule checked last is what separates a
    // correct stop-on-first mode from one that gives up early.
    ctx.run_generated(
        "few-violations",
        MSGS.len(),
        ctx.n(600, 15000),
        6000,
        &|sh, src: &mut Src| few_violations(mt_of_shard(sh), src),
        &oracle,
        &to_json,
    );
}

pub fn replay(_ctx: &Ctx, _sub: &str, case: &Value) -> Vec<Violation> {
    let c: MutCase = serde_json::from_value(case.clone()).expect("replay case");
    oracle(&c, &mut Obs::default())
}
