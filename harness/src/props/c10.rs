//! C10 — envelope integrity: blocks and headers are extracted and reproduced faithfully.
use crate::choice::Src;
use crate::driver::{Ctx, Obs, Violation, viol};
use crate::fieldkit::leaves;
use crate::lib_api::{MSGS, header_parse, msg_ops};
use crate::msgkit::*;
use crate::spec::{gen_bic, gen_date6, gen_time4};
use serde::{Deserialize, Serialize};
use serde_json::{Value, json};

/// Independent block splitter: sequential `{n:...}` blocks; blocks 1,2 end at the first
/// `}`, blocks 3,5 by brace matching, block 4 at the first `-}` that starts a line (or
/// directly follows the content).
pub fn split_blocks(s: &str) -> Option<Vec<(u8, String)>> {
    let b = s.as_bytes();
    let mut i = 0;
    let mut out = Vec::new();
    while i < b.len() {
        while i < b.len() && (b[i] == b'\n' || b[i] == b'\r') {
            i += 1;
        }
        if i >= b.len() {
            break;
        }
        if b[i] != b'{' || i + 2 >= b.len() || b[i + 2] != b':' {
            return None;
        }
        let n = b[i + 1].wrapping_sub(b'0');
        let start = i + 3;
        let end = match n {
            1 | 2 => s[start..].find('}').map(|e| start + e)?,
            4 => {
                let e = s[start..].find("-}")?;
                start + e
            }
            3 | 5 => {
                let mut depth = 1;
                let mut j = start;
                let mut found = None;
                while j < b.len() {
                    match b[j] {
                        b'{' => depth += 1,
                        b'}' => {
                            depth -= 1;
                            if depth == 0 {
                                found = Some(j);
                                break;
                            }
                        }
                        _ => {}
                    }
                    j += 1;
                }
                found?
            }
            _ => return None,
        };
        out.push((n, s[start..end].to_string()));
        i = if n == 4 { end + 2 } else { end + 1 };
    }
    Some(out)
}

pub fn block4_of(s: &str) -> String {
    split_blocks(s)
        .and_then(|v| v.into_iter().find(|(n, _)| *n == 4).map(|x| x.1))
        .unwrap_or_default()
}

/// `{tag:value}` pairs of a block 3 / block 5 content
pub fn tag_pairs(s: &str) -> Vec<(String, String)> {
    let mut out = Vec::new();
    let mut rest = s;
    while let Some(a) = rest.find('{') {
        let r = &rest[a + 1..];
        let e = match r.find('}') {
            Some(e) => e,
            None => break,
        };
        let inner = &r[..e];
        match inner.find(':') {
            Some(c) => out.push((inner[..c].to_string(), inner[c + 1..].to_string())),
            None => out.push((inner.to_string(), String::new())),
        }
        rest = &r[e + 1..];
    }
    out
}

#[derive(Clone, Debug, Serialize, Deserialize)]
pub struct EnvCase {
    pub mt: String,
    pub b1: String,
    pub b2: String,
    pub b3: Option<Vec<(String, String)>>,
    pub b5: Option<Vec<(String, String)>>,
    /// body fields text (block 4 content between `{4:\n` and `-}`)
    pub body: String,
    /// near-miss class ("" = well-formed)
    pub near_miss: String,
    /// marker text embedded in a 77T value (MT103 only), "" = none
    pub marker: String,
    /// what stands between two blocks: "", "\n" (as the library writes) or "\r\n"
    #[serde(default)]
    pub sep: String,
    /// block 4 written with CRLF line ends
    #[serde(default)]
    pub crlf: bool,
}

impl EnvCase {
    pub fn text(&self) -> String {
        let sep = self.sep.as_str();
        let mut s = format!("{{1:{}}}{sep}{{2:{}}}{sep}", self.b1, self.b2);
        if let Some(t) = &self.b3 {
            s.push_str("{3:");
            for (k, v) in t {
                s.push_str(&format!("{{{k}:{v}}}"));
            }
            s.push('}');
            s.push_str(sep);
        }
        let mut b4 = String::from("{4:\n");
        b4.push_str(&self.body);
        if !self.marker.is_empty() {
            b4.push_str(&format!(":77T:ENVELOPE {} CONTENT\n", self.marker));
        }
        b4.push_str("-}");
        if self.crlf {
            b4 = b4.replace('\n', "\r\n");
        }
        s.push_str(&b4);
        if let Some(t) = &self.b5 {
            s.push_str(sep);
            s.push_str("{5:");
            for (k, v) in t {
                if v.is_empty() && (k == "TNG" || k == "DLM") {
                    s.push_str(&format!("{{{k}}}"));
                } else {
                    s.push_str(&format!("{{{k}:{v}}}"));
                }
            }
            s.push('}');
        }
        s
    }
}

fn digits(src: &mut Src, n: usize) -> String {
    (0..n).map(|_| src.pick_char("0123456789")).collect()
}
fn upper(src: &mut Src, n: usize) -> String {
    (0..n)
        .map(|_| src.pick_char("ABCDEFGHIJKLMNOPQRSTUVWXYZ"))
        .collect()
}
fn xtext(src: &mut Src, min: usize, max: usize) -> String {
    let n = src.range(min, max);
    (0..n)
        .map(|i| {
            if i == 0 {
                src.pick_char("ABCDEFGHIJKLMNOPQRSTUVWXYZ")
            } else {
                src.pick_char("ABCDEFGHIJKLMNOPQRSTUVWXYZ0123456789-.")
            }
        })
        .collect()
}

pub fn gen_lt12(src: &mut Src) -> String {
    let mut bic = gen_bic(src);
    bic.truncate(8);
    match src.below(3) {
        0 => format!("{bic}AXXX"),
        1 => format!("{bic}{}XXX", src.pick_char("ABCDEFGH")),
        _ => format!("{bic}{}{}", src.pick_char("ABC"), upper(src, 3)),
    }
}

pub fn gen_b1(src: &mut Src) -> String {
    format!(
        "{}{}{}{}{}",
        src.pick(&["F", "A", "L"]),
        src.pick(&["01", "03", "05", "21"]),
        gen_lt12(src),
        digits(src, 4),
        digits(src, 6)
    )
}

pub fn gen_mir(src: &mut Src) -> String {
    format!(
        "{}{}{}{}",
        gen_date6(src),
        gen_lt12(src),
        digits(src, 4),
        digits(src, 6)
    )
}

pub fn gen_b2(mt: &str, src: &mut Src) -> String {
    if src.flip() {
        let mut s = format!("I{}{}{}", mt, gen_lt12(src), src.pick(&["N", "U", "S"]));
        match src.below(3) {
            0 => {}
            1 => s.push_str(*src.pick(&["1", "2", "3"])),
            _ => {
                s.push_str(*src.pick(&["1", "2", "3"]));
                s.push_str(&format!("{:03}", 3 + src.below(997)));
            }
        }
        s
    } else {
        let mut s = format!(
            "O{}{}{}{}{}",
            mt,
            gen_time4(src),
            gen_mir(src),
            gen_date6(src),
            gen_time4(src)
        );
        if src.flip() {
            s.push_str(*src.pick(&["N", "U", "S"]));
        }
        s
    }
}

pub const B3_TAGS: &[&str] = &[
    "103", "113", "108", "119", "423", "106", "424", "111", "121", "115", "165", "433", "434",
];
pub const B5_TAGS: &[&str] = &["CHK", "TNG", "PDE", "DLM", "MRF", "PDM", "SYS", "MAC"];

pub fn gen_b3_value(tag: &str, src: &mut Src) -> String {
    match tag {
        "103" => upper(src, 3),
        "113" => upper(src, 4),
        "108" => {
            // one reference in four looks like another tag's opening ("119:", "121:") without its brace
            if src.chance(1, 4) {
                src.pick(&["PMT/119:COV/0001", "REF121:20240101", "X/103:ABC/Y", "A111:001B"])
                    .to_string()
            } else {
                format!("MUR{}", xtext(src, 1, 13))
            }
        }
        "119" => src.pick(&["STP", "REMIT", "RFDD", "COV"]).to_string(),
        "423" => format!(
            "{}{}{}{}",
            gen_date6(src),
            gen_time4(src),
            format!("{:02}", src.below(60)),
            if src.flip() {
                format!("{:02}", src.below(100))
            } else {
                String::new()
            }
        ),
        "106" => gen_mir(src),
        "424" => {
            if src.chance(1, 4) {
                src.pick(&["REL/108:INNER", "R119:STP/1"]).to_string()
            } else {
                format!("REL{}", xtext(src, 1, 13))
            }
        }
        "111" => digits(src, 3),
        "121" => {
            let h = |src: &mut Src, n: usize| -> String {
                (0..n).map(|_| src.pick_char("0123456789abcdef")).collect()
            };
            format!(
                "{}-{}-4{}-a{}-{}",
                h(src, 8),
                h(src, 4),
                h(src, 3),
                h(src, 3),
                h(src, 12)
            )
        }
        "115" => format!("ADDR{}", xtext(src, 1, 28)),
        "165" => {
            // 3!c/34x: the information part may itself contain a slash
            if src.chance(1, 3) {
                format!("{}/REL/{}", upper(src, 3), xtext(src, 1, 20))
            } else {
                format!("{}/{}", upper(src, 3), format!("PRI{}", xtext(src, 1, 30)))
            }
        }
        "433" => {
            let c = src.pick(&["AOK", "FPO", "NOK"]).to_string();
            match src.below(3) {
                0 => format!("{c}/SAN{}", xtext(src, 1, 16)),
                // documented as 3!a/[20x]: the slash with nothing after it
                1 => format!("{c}/"),
                _ => c,
            }
        }
        "434" => {
            let c = upper(src, 3);
            match src.below(3) {
                0 => format!("{c}/PCI{}", xtext(src, 1, 16)),
                1 => format!("{c}/"),
                _ => c,
            }
        }
        _ => unreachable!(),
    }
}

pub fn gen_b5_value(tag: &str, src: &mut Src) -> String {
    let hex = |src: &mut Src, n: usize| -> String {
        (0..n).map(|_| src.pick_char("0123456789ABCDEF")).collect()
    };
    match tag {
        "CHK" => hex(src, 12),
        "MAC" => hex(src, 8),
        "TNG" | "DLM" => String::new(),
        "PDE" | "SYS" => {
            if src.flip() {
                format!("{}{}", gen_time4(src), gen_mir(src))
            } else {
                String::new()
            }
        }
        "PDM" => {
            if src.flip() {
                format!("{}{}", gen_time4(src), gen_mir(src))
            } else {
                String::new()
            }
        }
        "MRF" => format!("{}{}{}", gen_date6(src), gen_time4(src), gen_mir(src)),
        _ => unreachable!(),
    }
}

fn subset<'a>(tags: &[&'a str], src: &mut Src) -> Vec<&'a str> {
    let mut v: Vec<&str> = tags.iter().filter(|_| src.chance(2, 5)).copied().collect();
    // documented order, or a rotated order in a third of the cases
    if v.len() > 1 && src.chance(1, 3) {
        let k = src.below(v.len());
        v.rotate_left(k);
    }
    v
}

/// minimal valid body of a type: all generator choices at their first alternative
pub fn minimal_body(mt: &str) -> String {
    // first alternatives for the structure, short-but-not-degenerate contents
    let data: Vec<u32> = (0..400)
        .map(|i| if i % 2 == 0 { 0 } else { 0x3000_0000 })
        .collect();
    let mut src = Src::new(&data);
    let m = gen_valid_msg(mt, &mut src);
    let mut s = String::new();
    for f in &m.fields {
        s.push_str(&format!(":{}:{}\n", f.tag, f.content));
    }
    s
}

pub fn gen_env(mt: &str, src: &mut Src) -> EnvCase {
    let b1 = gen_b1(src);
    let b2 = gen_b2(mt, src);
    let b3 = if src.chance(2, 3) {
        Some(
            subset(B3_TAGS, src)
                .into_iter()
                .map(|t| (t.to_string(), gen_b3_value(t, src)))
                .collect(),
        )
    } else {
        None
    };
    let b5 = if src.chance(2, 3) {
        Some(
            subset(B5_TAGS, src)
                .into_iter()
                .map(|t| (t.to_string(), gen_b5_value(t, src)))
                .collect(),
        )
    } else {
        None
    };
    let mut c = EnvCase {
        mt: mt.to_string(),
        b1,
        b2,
        b3,
        b5,
        body: minimal_body(mt),
        near_miss: String::new(),
        marker: String::new(),
        sep: src.pick(&["", "", "\n", "\r\n"]).to_string(),
        crlf: src.chance(1, 3),
    };
    match src.below(10) {
        0 => {
            // block 1 of wrong length
            match src.below(4) {
                0 => {
                    c.b1.pop();
                    c.near_miss = "b1-len24".into();
                }
                1 => {
                    c.b1.push('7');
                    c.near_miss = "b1-len26".into();
                }
                2 => {
                    c.b1.truncate(21);
                    c.near_miss = "b1-len21".into();
                }
                _ => {
                    c.b1.push_str("1234");
                    c.near_miss = "b1-len29".into();
                }
            }
        }
        1 => {
            if c.b2.starts_with('I') {
                let base: String = c.b2.chars().take(17).collect();
                let (n, t) = *src.pick(&[
                    ("I-len16", ""),
                    ("I-len19", "20"),
                    ("I-len20", "200"),
                    ("I-len22", "20031"),
                    ("I-len25", "2003ZZZZ"),
                ]);
                c.b2 = if n == "I-len16" {
                    base[..16].to_string()
                } else {
                    format!("{base}{t}")
                };
                c.near_miss = n.into();
            } else {
                let base: String = c.b2.chars().take(46).collect();
                let (n, t) =
                    *src.pick(&[("O-len45", ""), ("O-len48", "NX"), ("O-len54", "TRAILING")]);
                c.b2 = if n == "O-len45" {
                    base[..45].to_string()
                } else {
                    format!("{base}{t}")
                };
                c.near_miss = n.into();
            }
        }
        2 => {
            let d = *src.pick(&["X", "i", "0"]);
            c.b2.replace_range(0..1, d);
            c.near_miss = "direction".into();
        }
        5 => {
            // white space padding inside the braces: the block is then of the wrong length / shape
            match src.below(6) {
                0 => {
                    c.b1.push(' ');
                    c.near_miss = "b1-trailing-space".into();
                }
                1 => {
                    c.b1.insert(0, ' ');
                    c.near_miss = "b1-leading-space".into();
                }
                2 => {
                    c.b2.push_str("  ");
                    c.near_miss = "b2-trailing-space".into();
                }
                3 => {
                    c.b2.insert(0, ' ');
                    c.near_miss = "b2-leading-space".into();
                }
                4 => {
                    c.b1.push_str("\r\n");
                    c.near_miss = "b1-trailing-crlf".into();
                }
                _ => {
                    c.b2.push('\n');
                    c.near_miss = "b2-trailing-lf".into();
                }
            }
        }
        3 | 4 => {
            if mt == "103" {
                c.marker = src
                    .pick(&[
                        "{5:{CHK:FFFFFFFFFFFF",
                        "{3:{108:FAKEMUR",
                        "{3:{119:COV",
                        "{2:O1031200",
                        "{1:F01FAKEBANKAXXX",
                        "{5:{MAC:00000000",
                        // balanced: complete blocks with modelled tags inside a field value
                        "{3:{108:INNERREF}}",
                        "{3:{108:INNERREF}{121:180f1e65-90e0-44d5-a49a-92b55eb3025f}}",
                        "{5:{CHK:123456789ABC}}",
                        "{5:{TNG}}",
                        "{2:I103BANKDEFFAXXXN}",
                        "{1:F01FAKEDEFFAXXX0000000000}",
                    ])
                    .to_string();
            }
        }
        _ => {}
    }
    c
}

/// a value-less trailer tag counts as read when the parsed trailer says so
fn flag_held(header_json: &Value, tag: &str) -> bool {
    let key = match tag {
        "TNG" => "test_and_training",
        "DLM" => "delayed_message",
        "PDE" => "possible_duplicate_emission",
        "PDM" => "possible_duplicate_message",
        "SYS" => "system_originated_message",
        _ => return false,
    };
    match header_json.get(key) {
        Some(Value::Bool(b)) => *b,
        Some(Value::Null) | None => false,
        Some(_) => true,
    }
}

fn recognised(header_json: &Value, value: &str) -> bool {
    let mut ls = Vec::new();
    leaves(header_json, &mut ls);
    ls.iter().any(|l| match l {
        Value::String(s) => s == value || (s.len() >= 3 && value.contains(s.as_str())),
        _ => false,
    })
}

pub fn oracle(c: &EnvCase, obs: &mut Obs) -> Vec<Violation> {
    let mut out = Vec::new();
    let x = c.text();
    let res = (msg_ops(&c.mt).parse_full)(&x);
    obs.class(if c.near_miss.is_empty() {
        if c.marker.is_empty() {
            "well-formed"
        } else {
            "marker-in-77T"
        }
    } else {
        "near-miss"
    });
    obs.class(if res.is_ok() { "accepted" } else { "rejected" });
    if c.b3.as_ref().map(|v| !v.is_empty()).unwrap_or(false)
        || c.b5.as_ref().map(|v| !v.is_empty()).unwrap_or(false)
        || c.b2.len() > 17
        || !c.near_miss.is_empty()
    {
        obs.nontrivial_str(&x);
    }
    obs.sample(
        if c.near_miss.is_empty() {
            "well-formed"
        } else {
            "near-miss"
        },
        || json!({"text": x, "near_miss": c.near_miss}),
    );
    let m = match res {
        Ok(m) => m,
        Err(e) => {
            if c.near_miss.is_empty() && !e.is_panic() {
                out.push(viol(
                    format!("C10|rejected|{}", crate::props::c03::error_tag(&e)),
                    format!("well-formed envelope rejected: {}\n{}", e.text(), x),
                ));
            }
            return out;
        }
    };
    if !c.near_miss.is_empty() {
        out.push(viol(
            format!("C10|partial-read|{}", c.near_miss),
            format!(
                "malformed header ({}) accepted: block1 {:?} block2 {:?}; re-emitted {:?} / {:?}",
                c.near_miss, c.b1, c.b2, m.block1, m.block2
            ),
        ));
        return out;
    }
    let blocks = match split_blocks(&m.mt_message) {
        Some(b) => b,
        None => {
            out.push(viol(
                "C10|output-unsplittable",
                format!(
                    "to_mt_message output has no clean block structure:\n{}",
                    m.mt_message
                ),
            ));
            return out;
        }
    };
    let get = |n: u8| blocks.iter().find(|(k, _)| *k == n).map(|x| x.1.clone());
    if get(1).as_deref() != Some(c.b1.as_str()) {
        out.push(viol(
            "C10|block1|changed",
            format!("block 1 {:?} re-emitted as {:?}", c.b1, get(1)),
        ));
    }
    if get(2).as_deref() != Some(c.b2.as_str()) {
        let kind = if c.b2.starts_with('I') {
            format!("I{}", c.b2.len())
        } else {
            format!("O{}", c.b2.len())
        };
        out.push(viol(
            format!("C10|block2|changed|{kind}"),
            format!("block 2 {:?} re-emitted as {:?}", c.b2, get(2)),
        ));
    }
    for (n, input, key) in [(3u8, &c.b3, "user_header"), (5u8, &c.b5, "trailer")] {
        let hj = m.json.get(key).cloned().unwrap_or(Value::Null);
        let outp = get(n).map(|s| tag_pairs(&s)).unwrap_or_default();
        if let Some(tags) = input {
            for (t, v) in tags {
                let same = outp.iter().any(|(a, b)| a == t && b == v);
                if same {
                    continue;
                }
                // tags the trailer struct models and its Display writes must survive whatever the
                // parser made of them (a tag lost while parsing is as lost as one lost while writing);
                // for the others, "recognised" is decided by what the parsed header holds
                let modelled = (n == 5 && ["CHK", "TNG", "PDE", "DLM", "MRF", "MAC"].contains(&t.as_str()))
                    || (n == 3 && B3_TAGS.contains(&t.as_str()));
                let held = modelled
                    || if v.is_empty() {
                        flag_held(&hj, t)
                    } else {
                        recognised(&hj, v)
                    };
                let present = outp.iter().any(|(a, _)| a == t);
                if present {
                    out.push(viol(
                        format!("C10|block{n}|{t}|changed"),
                        format!(
                            "tag {t} value {:?} re-emitted as {:?}",
                            v,
                            outp.iter().find(|(a, _)| a == t).map(|x| &x.1)
                        ),
                    ));
                } else if held {
                    out.push(viol(
                        format!("C10|block{n}|{t}|dropped"),
                        format!(
                            "tag {t}:{v} is read into the header ({}) but not serialised: {:?}",
                            hj,
                            get(n)
                        ),
                    ));
                } else {
                    obs.excluded(&format!("unrecognised-tag:{t}"));
                }
            }
        }
        // nothing invented
        for (t, v) in &outp {
            let given = input
                .as_ref()
                .map(|ts| ts.iter().any(|(a, b)| a == t && b == v))
                .unwrap_or(false);
            if !given {
                let had_tag = input
                    .as_ref()
                    .map(|ts| ts.iter().any(|(a, _)| a == t))
                    .unwrap_or(false);
                if !had_tag {
                    out.push(viol(
                        format!("C10|block{n}|{t}|invented"),
                        format!(
                            "output carries {{{t}:{v}}} that the input did not have: input {:?}",
                            input
                        ),
                    ));
                }
            }
        }
    }
    // block assignment must not depend on characters inside a field value
    if !c.marker.is_empty() {
        let mut plain = c.clone();
        plain.marker = String::new();
        if let Ok(p) = (msg_ops(&c.mt).parse_full)(&plain.text()) {
            for key in [
                "basic_header",
                "application_header",
                "user_header",
                "trailer",
            ] {
                if p.json.get(key) != m.json.get(key) {
                    let mk: String = c.marker.chars().take(3).collect();
                    out.push(viol(
                        format!("C10|block-misassigned|{}|{}", mk, key),
                        format!(
                            "a 77T value containing {:?} changes {}: {:?} vs {:?}",
                            c.marker,
                            key,
                            m.json.get(key),
                            p.json.get(key)
                        ),
                    ));
                }
            }
        }
    }
    out
}

#[derive(Clone, Debug, Serialize, Deserialize)]
pub struct HdrCase {
    pub kind: u8,
    pub text: String,
    pub class: String,
}

pub fn gen_hdr(src: &mut Src) -> HdrCase {
    let kind = *src.pick(&[1u8, 2, 3, 5]);
    let mt = MSGS[src.below(MSGS.len())].mt;
    let (text, class) = match kind {
        1 => (gen_b1(src), "b1"),
        2 => (gen_b2(mt, src), "b2"),
        3 => (
            subset(B3_TAGS, src)
                .into_iter()
                .map(|t| format!("{{{}:{}}}", t, gen_b3_value(t, src)))
                .collect::<String>(),
            "b3",
        ),
        _ => (
            subset(B5_TAGS, src)
                .into_iter()
                .map(|t| {
                    let v = gen_b5_value(t, src);
                    if v.is_empty() && (t == "TNG" || t == "DLM") {
                        format!("{{{t}}}")
                    } else {
                        format!("{{{t}:{v}}}")
                    }
                })
                .collect::<String>(),
            "b5",
        ),
    };
    HdrCase {
        kind,
        text,
        class: class.into(),
    }
}

pub fn hdr_oracle(c: &HdrCase, obs: &mut Obs) -> Vec<Violation> {
    let mut out = Vec::new();
    obs.class(&format!("direct:{}", c.class));
    obs.nontrivial_str(&format!("{}|{}", c.kind, c.text));
    obs.sample(
        &format!("direct:{}", c.class),
        || json!({"kind": c.kind, "text": c.text}),
    );
    let (disp, hj) = match header_parse(c.kind, &c.text) {
        Ok(x) => x,
        Err(e) => {
            if !e.is_panic() {
                out.push(viol(
                    format!("C10|direct|block{}|rejected", c.kind),
                    format!("well-formed header {:?} rejected: {}", c.text, e.text()),
                ));
            }
            return out;
        }
    };
    match c.kind {
        1 | 2 => {
            if disp != c.text {
                let kind = if c.kind == 2 {
                    format!("{}{}", &c.text[0..1], c.text.len())
                } else {
                    "b1".to_string()
                };
                out.push(viol(
                    format!("C10|direct|block{}|changed|{}", c.kind, kind),
                    format!("{:?} displayed as {:?}", c.text, disp),
                ));
            }
        }
        _ => {
            let outp = tag_pairs(&disp);
            for (t, v) in tag_pairs(&c.text) {
                if outp.iter().any(|(a, b)| *a == t && *b == v) {
                    continue;
                }
                if outp.iter().any(|(a, _)| *a == t) {
                    out.push(viol(
                        format!("C10|direct|block{}|{}|changed", c.kind, t),
                        format!("{:?} displayed as {:?}", c.text, disp),
                    ));
                } else if (c.kind == 5 && ["CHK", "TNG", "PDE", "DLM", "MRF", "MAC"].contains(&t.as_str()))
                    || (c.kind == 3 && B3_TAGS.contains(&t.as_str()))
                    || (!v.is_empty() && recognised(&hj, &v))
                    || (v.is_empty() && flag_held(&hj, &t))
                {
                    out.push(viol(
                        format!("C10|direct|block{}|{}|dropped", c.kind, t),
                        format!("tag {t} read into {} but Display gives {:?}", hj, disp),
                    ));
                } else {
                    obs.excluded(&format!("unrecognised-tag:{t}"));
                }
            }
        }
    }
    // Display -> parse -> Display fixed point
    if let Ok((d2, _)) = header_parse(c.kind, &disp) {
        if d2 != disp {
            out.push(viol(
                format!("C10|direct|block{}|display-not-fixed", c.kind),
                format!("{:?} -> {:?} -> {:?}", c.text, disp, d2),
            ));
        }
    }
    out
}

pub fn run(ctx: &Ctx) {
    ctx.add_rule("envelopes built from the documented header components: block 1 (app id, service id, 12-char LT, session, sequence), block 2 input (17/18/21 chars) and output (46/47), any subset/rotation of the 13 documented block-3 tags and 8 block-5 tags, blocks 3/5 present or absent, blocks written back to back or separated by LF or CRLF, block 4 with LF or CRLF line ends, around a minimal valid body of each of the 30 types; near misses (block-1 length, I/O header lengths, direction letter); block markers embedded in a 77T value; plus direct Header::parse/Display pairs; non-trivial = has an optional component / tag / near miss; distinct by text");
    ctx.assume("own sequential block splitter: blocks 1,2 end at the first `}`, 3 and 5 by brace matching, 4 at `-}`");
    ctx.assume("a block-3/5 tag counts as recognised when the parsed header's JSON holds its value (or its parts)");
    let to_json = |c: &EnvCase| serde_json::to_value(c).unwrap();
    ctx.run_generated(
        "envelope",
        MSGS.len(),
        ctx.n(2000, 40000),
        400,
        &|sh, src: &mut Src| gen_env(mt_of_shard(sh), src),
        &oracle,
        &to_json,
    );
    let to_json2 = |c: &HdrCase| serde_json::to_value(c).unwrap();
    ctx.run_generated(
        "direct",
        16,
        ctx.n(2000, 40000),
        300,
        &|_sh, src: &mut Src| gen_hdr(src),
        &hdr_oracle,
        &to_json2,
    );
}

pub fn replay(_ctx: &Ctx, sub: &str, case: &Value) -> Vec<Violation> {
    if sub == "direct" {
        let c: HdrCase = serde_json::from_value(case.clone()).expect("replay case");
        hdr_oracle(&c, &mut Obs::default())
    } else {
        let c: EnvCase = serde_json::from_value(case.clone()).expect("replay case");
        oracle(&c, &mut Obs::default())
    }
}
