//! C17 — reject / return / cover classification follows the codes present, consistently.
use crate::driver::{Ctx, Obs, Violation, viol};
use crate::lib_api::{msg_ops, plugin_parse};
use crate::props::c10::minimal_body;
use serde::{Deserialize, Serialize};
use serde_json::{Value, json};
use std::collections::BTreeMap;

#[derive(Clone, Debug, Serialize, Deserialize)]
pub struct ClsCase {
    pub mt: String,
    /// lines of field 72 (empty = field absent)
    pub f72: Vec<String>,
    pub t108: Option<String>,
    pub t119: Option<String>,
    /// MT202 only: "", "cover" (50a + 59a in sequence B), "cover-50-only", "cover-59-only", "other" (52A only)
    pub seq_b: String,
    /// description of the atoms used (for signatures)
    pub atoms: String,
    /// MT103 only: bank operation code to write in 23B ("" = keep the minimal body's)
    #[serde(default)]
    pub b23: String,
    /// MT103 only: instruction codes of the 23E repetitions
    #[serde(default)]
    pub e23: Vec<String>,
    /// MT103 only: add an intermediary 56A (with its 57A)
    #[serde(default)]
    pub f56: bool,
}

const ATOMS: &[&str] = &[
    "/REJT/", "/RETN/", "/RJT/", "/RET/", "/COV/", "/COVER/", "/rejt/", "/retn/", "REJT", "RETN",
    "/REJTX/", "/RETNS/", "/XREJT/", "/COVENTRY/", "/COVX",
];

impl ClsCase {
    pub fn text(&self) -> String {
        let mut s = String::from("{1:F01BANKDEFFAXXX0000000000}");
        s.push_str(&format!("{{2:I{}BANKUS33AXXXN}}", self.mt));
        if self.t108.is_some() || self.t119.is_some() {
            s.push_str("{3:");
            if let Some(v) = &self.t108 {
                s.push_str(&format!("{{108:{v}}}"));
            }
            if let Some(v) = &self.t119 {
                s.push_str(&format!("{{119:{v}}}"));
            }
            s.push('}');
        }
        s.push_str("{4:\n");
        let mut body = body_with_72(&self.mt, &self.f72, &self.seq_b);
        if self.mt == "103" && (!self.b23.is_empty() || !self.e23.is_empty() || self.f56) {
            let mut fields: Vec<(String, String)> = crate::refs::tokenize(&body)
                .1
                .into_iter()
                .map(|t| (t.tag, t.content))
                .filter(|(t, _)| t != "23E" && t != "56A" && t != "57A")
                .collect();
            if let Some(i) = fields.iter().position(|(t, _)| t == "23B") {
                if !self.b23.is_empty() {
                    fields[i].1 = self.b23.clone();
                }
                for (k, code) in self.e23.iter().enumerate() {
                    fields.insert(i + 1 + k, ("23E".into(), code.clone()));
                }
            }
            if self.f56 {
                if let Some(i) = fields.iter().position(|(t, _)| t.starts_with("59")) {
                    fields.insert(i, ("57A".into(), "CHASUS33".into()));
                    fields.insert(i, ("56A".into(), "DEUTDEFF".into()));
                }
            }
            body = fields
                .iter()
                .map(|(t, c)| format!(":{t}:{c}\n"))
                .collect::<String>();
        }
        s.push_str(&body);
        s.push_str("-}");
        s
    }
}

/// STP compliance of an MT103 as `is_stp_compliant` documents it: not an STP type (23B other than
/// SPRI/SSTD/SPAY) => compliant; SPRI: every 23E code in {SDVA, TELB, PHOB, INTC} and no field 56;
/// SSTD/SPAY: no 23E at all
pub fn stp_expected(b23: &str, e23: &[String], f56: bool) -> bool {
    match b23 {
        "SPRI" => {
            e23.iter()
                .all(|c| ["SDVA", "TELB", "PHOB", "INTC"].contains(&c.as_str()))
                && !f56
        }
        "SSTD" | "SPAY" => e23.is_empty(),
        _ => true,
    }
}

pub fn enumerate_stp() -> Vec<ClsCase> {
    let lists: Vec<Vec<&str>> = vec![
        vec![],
        vec!["SDVA"],
        vec!["CORT"],
        vec!["SDVA", "CORT"],
        vec!["CORT", "SDVA"],
        vec!["INTC", "SDVA"],
        vec!["SDVA", "TELB", "PHOB", "INTC"],
        vec!["SDVA", "TELB", "HOLD"],
        vec!["CHQB", "INTC", "PHOB"],
        vec!["INTC", "REPA", "TELB"],
    ];
    let mut out = Vec::new();
    for b in ["CRED", "CRTS", "SPAY", "SPRI", "SSTD"] {
        for l in &lists {
            for f56 in [false, true] {
                for f72 in [vec![], vec!["/REJT/AC01".to_string()], vec!["/RETN/AC01".to_string()]] {
                    out.push(ClsCase {
                        mt: "103".into(),
                        f72: f72.clone(),
                        t108: None,
                        t119: None,
                        seq_b: String::new(),
                        atoms: "stp".into(),
                        b23: b.to_string(),
                        e23: l.iter().map(|x| x.to_string()).collect(),
                        f56,
                    });
                }
            }
        }
    }
    out
}

pub fn stp_oracle(c: &ClsCase, obs: &mut Obs) -> Vec<Violation> {
    let mut out = oracle(c, obs);
    if let Some(o) = observe(c) {
        obs.class("stp-dimension");
        let exp = stp_expected(&c.b23, &c.e23, c.f56);
        if o.stp != exp {
            let what = if c.e23.len() > 1 { "23E-repeated" } else if c.f56 { "with-56" } else { "plain" };
            out.push(viol(
                format!("C17|MT103|stp|expected-{exp}|{}|{what}", c.b23),
                format!(
                    "is_stp_message()={} for 23B={} 23E={:?} 56a={}: {}",
                    o.stp,
                    c.b23,
                    c.e23,
                    c.f56,
                    c.text()
                ),
            ));
        }
    }
    out
}

/// minimal body of the type with field 72 set / removed, and (MT202) a sequence B
pub fn body_with_72(mt: &str, f72: &[String], seq_b: &str) -> String {
    let base = minimal_body(mt);
    // drop any 72 of the minimal body, then insert ours at the documented position
    let mut fields: Vec<(String, String)> = crate::refs::tokenize(&base)
        .1
        .into_iter()
        .map(|t| (t.tag, t.content))
        .filter(|(t, _)| t != "72")
        .collect();
    if !f72.is_empty() {
        let after: &[&str] = match mt {
            "103" => &["71A", "71F", "71G"],
            _ => &["58A", "58D"],
        };
        let pos = fields
            .iter()
            .rposition(|(t, _)| after.contains(&t.as_str()))
            .map(|i| i + 1)
            .unwrap_or(fields.len());
        fields.insert(pos, ("72".to_string(), f72.join("\n")));
    }
    if mt == "202" {
        match seq_b {
            "cover" => {
                fields.push(("50K".into(), "/ACC\nORDERING CUSTOMER".into()));
                fields.push(("59".into(), "/ACC\nBENEFICIARY".into()));
            }
            "cover-50-only" => fields.push(("50K".into(), "/ACC\nORDERING CUSTOMER".into())),
            "cover-59-only" => fields.push(("59".into(), "/ACC\nBENEFICIARY".into())),
            "other" => fields.push(("52A".into(), "DEUTDEFF".into())),
            _ => {}
        }
    }
    let mut s = String::new();
    for (t, c) in fields {
        s.push_str(&format!(":{t}:{c}\n"));
    }
    s
}

pub fn enumerate(mt: &str, thorough: bool) -> Vec<ClsCase> {
    let mut f72s: Vec<(Vec<String>, String)> = vec![
        (vec![], "none".into()),
        (vec!["/ACC/INFORMATION".into()], "neutral".into()),
    ];
    for a in ATOMS {
        f72s.push((vec![format!("{a}AC01")], format!("{a}@start")));
        f72s.push((vec![format!("INFO {a} X")], format!("{a}@mid")));
        f72s.push((
            vec!["/ACC/INFORMATION".into(), format!("{a}AC01")],
            format!("{a}@line2"),
        ));
    }
    for a in ["/REJT/", "/RETN/", "/RJT/", "/RET/"] {
        for b in ["/REJT/", "/RETN/", "/COV/", "/RET/"] {
            if a != b {
                f72s.push((
                    vec![format!("{a}ONE"), format!("{b}TWO")],
                    format!("{a}+{b}"),
                ));
            }
        }
    }
    if thorough {
        for a in ATOMS {
            f72s.push((
                vec![
                    "/ACC/A".into(),
                    "//CONT".into(),
                    "/INS/B".into(),
                    format!("{a}Z"),
                ],
                format!("{a}@line4"),
            ));
        }
    }
    let t108s: Vec<Option<&str>> = vec![
        None,
        Some("PLAINREF"),
        Some("XREJTX"),
        Some("XRETNX"),
        Some("xrejtx"),
        Some("myretnref"),
        Some("Pay-Rejt-0001"),
        Some("x/Retn/77"),
        // the documented maximum length of tag 108 (16x)
        Some("REJT000000000001"),
        Some("PAYMENT00001RETN"),
        Some("REJT"),
        Some("RETN"),
    ];
    let t119s: Vec<Option<&str>> = vec![
        None,
        Some("STP"),
        Some("REMIT"),
        Some("COV"),
        Some("REJT"),
        Some("RETN"),
    ];
    let seqs: Vec<&str> = if mt == "202" {
        vec!["", "cover", "cover-50-only", "cover-59-only", "other"]
    } else {
        vec![""]
    };
    let mut out = Vec::new();
    for (l, d) in &f72s {
        for a in &t108s {
            for b in &t119s {
                for s in &seqs {
                    out.push(ClsCase {
                        mt: mt.to_string(),
                        f72: l.clone(),
                        t108: a.map(|x| x.to_string()),
                        t119: b.map(|x| x.to_string()),
                        seq_b: s.to_string(),
                        atoms: d.clone(),
                        b23: String::new(),
                        e23: Vec::new(),
                        f56: false,
                    });
                }
            }
        }
    }
    out
}

#[derive(Clone, Debug)]
pub struct Observed {
    pub reject: bool,
    pub ret: bool,
    pub cover: bool,
    pub stp: bool,
    pub method: Option<String>,
}

pub fn observe(c: &ClsCase) -> Option<Observed> {
    let x = c.text();
    let m = (msg_ops(&c.mt).parse_full)(&x).ok()?;
    let method = plugin_parse(&x).ok().and_then(|(_, meta)| {
        meta.get("method")
            .and_then(|v| v.as_str())
            .map(|s| s.to_string())
    });
    Some(Observed {
        reject: m.reject,
        ret: m.ret,
        cover: m.cover,
        stp: m.stp,
        method,
    })
}

fn class108(v: &Option<String>) -> &'static str {
    match v.as_deref() {
        None => "none",
        Some(s) if s.contains("REJT") => "REJT",
        Some(s) if s.contains("RETN") => "RETN",
        Some(s) if s.to_uppercase().contains("REJT") => "rejt-lower",
        Some(s) if s.to_uppercase().contains("RETN") => "retn-lower",
        Some(_) => "plain",
    }
}

pub fn oracle(c: &ClsCase, obs: &mut Obs) -> Vec<Violation> {
    let mut out = Vec::new();
    let o = match observe(c) {
        Some(o) => o,
        None => {
            obs.excluded("message-rejected");
            return out;
        }
    };
    let all72 = c.f72.join("\n");
    let has = |a: &str| all72.contains(a);
    let carries_atom = c.atoms != "none" && c.atoms != "neutral"
        || class108(&c.t108) != "none" && class108(&c.t108) != "plain"
        || matches!(c.t119.as_deref(), Some("REJT") | Some("RETN") | Some("COV"));
    if carries_atom {
        obs.nontrivial_str(&c.text());
    }
    obs.class(&format!("mt{}", c.mt));
    obs.sample(&format!("mt{}", c.mt), || json!({"text": c.text(), "reject": o.reject, "return": o.ret, "cover": o.cover, "method": o.method}));
    // (i) absolute verdict on unambiguous inputs only
    let lookalike = [
        "/RJT/", "/RET/", "/rejt/", "/retn/", "/REJTX/", "/RETNS/", "/XREJT/",
    ]
    .iter()
    .any(|a| has(a))
        || (has("REJT") && !has("/REJT/"))
        || (has("RETN") && !has("/RETN/"));
    let c108 = class108(&c.t108);
    let ambiguous = lookalike || matches!(c.t119.as_deref(), Some("REJT") | Some("RETN"));
    if !ambiguous {
        // tag 108 is matched without regard to case (the predicates fold the reference to upper case)
        let exp_rej = has("/REJT/") || c108 == "REJT" || c108 == "rejt-lower";
        let exp_ret = has("/RETN/") || c108 == "RETN" || c108 == "retn-lower";
        let place = format!(
            "72:{}|108:{}",
            if has("/REJT/") && has("/RETN/") {
                "both"
            } else if has("/REJT/") {
                "/REJT/"
            } else if has("/RETN/") {
                "/RETN/"
            } else {
                "none"
            },
            c108
        );
        if o.reject != exp_rej {
            out.push(viol(
                format!("C17|MT{}|reject|expected-{}|{}", c.mt, exp_rej, place),
                format!("has_reject_codes()={} for {}", o.reject, c.text()),
            ));
        }
        if o.ret != exp_ret {
            out.push(viol(
                format!("C17|MT{}|return|expected-{}|{}", c.mt, exp_ret, place),
                format!("has_return_codes()={} for {}", o.ret, c.text()),
            ));
        }
    } else {
        obs.excluded("absolute-verdict:ambiguous-code-word");
    }
    // (ii-b) cover: an MT202 is a cover message when its sequence B carries an ordering or a beneficiary
    // customer (is_cover_message: "Sequence B is present with COV fields")
    if c.mt == "205" {
        // MT205: a cover message carries the code word /COV/ or /COVER/ in field 72 (is_cover_message)
        let exp_cover = has("/COV/") || has("/COVER/");
        if o.cover != exp_cover {
            out.push(viol(
                format!("C17|MT205|cover|expected-{}|{}", exp_cover, c.atoms.split('@').next().unwrap_or("")),
                format!("is_cover_message()={} for {}", o.cover, c.text()),
            ));
        }
    }
    if c.mt == "202" {
        let exp_cover = matches!(c.seq_b.as_str(), "cover" | "cover-50-only" | "cover-59-only");
        if o.cover != exp_cover {
            out.push(viol(
                format!("C17|MT202|cover|expected-{}|{}", exp_cover, if c.seq_b.is_empty() { "none" } else { c.seq_b.as_str() }),
                format!("is_cover_message()={} for {}", o.cover, c.text()),
            ));
        }
    }
    // (ii-c) JSON path: the same message rebuilt from its JSON - with the type spelled "103" and "MT103",
    // both of which publish_mt accepts - is classified like the parsed one
    {
        let x = c.text();
        if let Ok(m) = (msg_ops(&c.mt).parse_full)(&x) {
            for spelling in [c.mt.clone(), format!("MT{}", c.mt)] {
                let mut j = m.json.clone();
                if let Some(o) = j.as_object_mut() {
                    o.insert("message_type".into(), Value::String(spelling.clone()));
                }
                if let Ok(m2) = (msg_ops(&c.mt).full_from_json)(&j) {
                    if (m2.reject, m2.ret, m2.cover, m2.stp) != (o.reject, o.ret, o.cover, o.stp) {
                        let form = if spelling.starts_with("MT") { "MTnnn" } else { "nnn" };
                        out.push(viol(
                            format!("C17|MT{}|json-path|{form}", c.mt),
                            format!(
                                "rebuilt from JSON with message_type {:?}: (reject, return, cover, stp) = {:?}, parsed from MT text: {:?}; {}",
                                spelling,
                                (m2.reject, m2.ret, m2.cover, m2.stp),
                                (o.reject, o.ret, o.cover, o.stp),
                                x
                            ),
                        ));
                    }
                }
            }
        }
    }
    // (iii) plugin method is the one the predicates imply
    let implied = if o.reject {
        "reject"
    } else if o.ret {
        "return"
    } else if o.cover {
        "cover"
    } else if c.mt == "103" && o.stp {
        "stp"
    } else {
        "normal"
    };
    match &o.method {
        Some(m) if m == implied => {}
        Some(m) => out.push(viol(format!("C17|MT{}|method|implied-{}-got-{}|119:{}", c.mt, implied, m, c.t119.as_deref().unwrap_or("none")), format!("predicates (reject={}, return={}, cover={}, stp={}) imply {implied}, parse_mt reports {m}: {}", o.reject, o.ret, o.cover, o.stp, c.text()))),
        None => out.push(viol(format!("C17|MT{}|method|missing", c.mt), "parse_mt gave no method".to_string())),
    }
    out
}

use crate::driver::Obs as _ObsAlias;

pub fn run(ctx: &Ctx) {
    ctx.add_rule("enumerated product for MT103, MT202, MT205: field 72 (absent / neutral / each of 15 code-word atoms incl. look-alikes and lower case at line start, mid-line, second line / pairs of atoms) x tag 108 (12 values, two of them 16 characters long: none, plain, code word upper / lower / mixed case, bare and embedded) x tag 119 (6 values) x MT202 sequence B (absent, 50a+59a, 50a only, 59a only, 52A only); control types without classification; non-trivial = carries at least one code word; distinct by text");
    ctx.exhaustive("the whole product is enumerated");
    ctx.assume("the four classifications of a message rebuilt from its JSON (message_type spelled nnn or MTnnn, the two spellings publish_mt accepts) equal those of the parsed message");
    ctx.assume("absolute verdict only where the code word is unambiguous (exact /REJT/ or /RETN/ in 72, REJT/RETN in 108 in any letter case - the predicates fold the user reference to upper case, src/swift_message.rs has_reject_codes/has_return_codes -, no look-alike anywhere); consistency across types and plugin method are judged on all inputs");
    let thorough = !ctx.quick();
    let types = ["103", "202", "205"];
    let to_json = |c: &ClsCase| serde_json::to_value(c).unwrap();
    ctx.run_enumerated(
        "classify",
        types.len(),
        &|sh| enumerate(types[sh], thorough),
        &oracle,
        &to_json,
    );
    // (ii) consistency: identical (72, 108, 119) must give identical (reject, return) in the three types
    let mut table: BTreeMap<String, Vec<(String, bool, bool)>> = BTreeMap::new();
    let mut sigs: BTreeMap<String, String> = BTreeMap::new();
    for t in types {
        for c in enumerate(t, thorough) {
            if !c.seq_b.is_empty() {
                continue;
            }
            if let Some(o) = observe(&c) {
                let key = format!(
                    "{}|108:{}|119:{}",
                    c.atoms,
                    class108(&c.t108),
                    c.t119.as_deref().unwrap_or("none")
                );
                table
                    .entry(key)
                    .or_default()
                    .push((t.to_string(), o.reject, o.ret));
            }
        }
    }
    let mut obs = _ObsAlias::default();
    for (key, v) in &table {
        obs.eval();
        let first = (v[0].1, v[0].2);
        if v.iter().any(|x| (x.1, x.2) != first) {
            // signature on the code-word configuration without the 119 dimension (119 never feeds the predicates)
            // root-cause level: the set of code-word atoms in field 72 (positions, 108 and 119 dropped)
            let atoms_part = key.split("|108:").next().unwrap_or(key);
            let mut atoms: Vec<String> = atoms_part
                .split('+')
                .map(|a| a.split('@').next().unwrap_or(a).to_string())
                .collect();
            atoms.sort();
            atoms.dedup();
            let short: String = atoms.join("+");
            sigs.entry(short.clone()).or_insert_with(|| {
                format!("(type, reject, return) = {:?} for 72/108/119 = {}", v, key)
            });
        }
    }
    for (short, detail) in sigs {
        let v = viol(format!("C17|consistency|{}", short), detail.clone());
        ctx.report(
            &mut obs,
            "consistency",
            v,
            &|| json!({"config": short, "detail": detail}),
        );
    }
    ctx.total.lock().unwrap().evals += obs.evals;
    let mut total = ctx.total.lock().unwrap();
    for (k, n) in obs.known_hits {
        *total.known_hits.entry(k).or_insert(0) += n;
    }
    total.unknown.extend(obs.unknown);
    drop(total);
    // MT103 STP dimension: 23B x 23E repetitions x 56a x reject/return code words
    ctx.assume("stp: expected value as is_stp_compliant documents it (SPRI: every 23E code in SDVA/TELB/PHOB/INTC and no 56a; SSTD/SPAY: no 23E; other 23B: compliant)");
    ctx.run_enumerated("stp", 1, &|_| enumerate_stp(), &stp_oracle, &to_json);
    // control: other types report `normal` and no classification
    let to_json2 = |c: &ClsCase| serde_json::to_value(c).unwrap();
    let controls = ["101", "199", "900", "940", "202"];
    ctx.run_enumerated(
        "controls",
        controls.len(),
        &|sh| {
            let mt = controls[sh];
            if mt == "202" {
                return Vec::new();
            }
            vec![
                ClsCase {
                    mt: mt.to_string(),
                    f72: vec![],
                    t108: Some("XRETNX".into()),
                    t119: None,
                    seq_b: String::new(),
                    atoms: "control".into(),
                    b23: String::new(),
                    e23: Vec::new(),
                    f56: false,
                },
                ClsCase {
                    mt: mt.to_string(),
                    f72: vec![],
                    t108: Some("XREJTX".into()),
                    t119: None,
                    seq_b: String::new(),
                    atoms: "control".into(),
                    b23: String::new(),
                    e23: Vec::new(),
                    f56: false,
                },
                ClsCase {
                    mt: mt.to_string(),
                    f72: vec![],
                    t108: None,
                    t119: Some("COV".into()),
                    seq_b: String::new(),
                    atoms: "control".into(),
                    b23: String::new(),
                    e23: Vec::new(),
                    f56: false,
                },
                ClsCase {
                    mt: mt.to_string(),
                    f72: vec![],
                    t108: None,
                    t119: None,
                    seq_b: String::new(),
                    atoms: "control".into(),
                    b23: String::new(),
                    e23: Vec::new(),
                    f56: false,
                },
            ]
        },
        &|c: &ClsCase, obs: &mut Obs| {
            let mut out = Vec::new();
            if let Some(o) = observe(c) {
                obs.nontrivial_str(&c.text());
                // tag 108 is looked at for every message type (has_reject_codes / has_return_codes
                // check it before anything type-specific)
                let c108 = class108(&c.t108);
                let exp_rej = c108 == "REJT" || c108 == "rejt-lower";
                let exp_ret = c108 == "RETN" || c108 == "retn-lower";
                if o.reject != exp_rej || o.ret != exp_ret {
                    out.push(viol(
                        format!("C17|MT{}|control|108:{}|reject={}-return={}", c.mt, c108, o.reject, o.ret),
                        format!("expected reject={exp_rej} return={exp_ret}: {}", c.text()),
                    ));
                }
                let implied = if o.reject {
                    "reject"
                } else if o.ret {
                    "return"
                } else if o.cover {
                    "cover"
                } else {
                    "normal"
                };
                if o.method.as_deref() != Some(implied) {
                    out.push(viol(
                        format!(
                            "C17|MT{}|method|implied-{}-got-{}|control",
                            c.mt,
                            implied,
                            o.method.clone().unwrap_or_default()
                        ),
                        c.text(),
                    ));
                }
            }
            out
        },
        &to_json2,
    );
}

pub fn replay(_ctx: &Ctx, sub: &str, case: &Value) -> Vec<Violation> {
    if sub == "consistency" {
        return Vec::new();
    }
    let c: ClsCase = serde_json::from_value(case.clone()).expect("replay case");
    if sub == "stp" {
        return stp_oracle(&c, &mut Obs::default());
    }
    oracle(&c, &mut Obs::default())
}
