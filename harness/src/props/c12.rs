//! C12 — message-type dispatch is consistent across every entry point.
use crate::choice::{Src, splitmix};
use crate::driver::{Ctx, Obs, Violation, viol};
use crate::lib_api::{
    LibErr, MSGS, msg_ops, parse_auto, plugin_parse, plugin_parse_payload, plugin_publish, plugin_validate,
};
use crate::msgkit::*;
use crate::props::c03::canonicalise;
use serde::{Deserialize, Serialize};
use serde_json::{Value, json};
use swift_mt_message::errors::ParseError;

#[derive(Clone, Debug, Serialize, Deserialize)]
pub struct DispCase {
    /// type the body was generated for
    pub body_mt: String,
    /// three-digit code written in block 2
    pub announced: String,
    /// typed parse requested ("" = none: auto / plugins only)
    pub requested: String,
    pub body: String,
    /// block 2 is an output header (O…) instead of an input header
    #[serde(default)]
    pub output_header: bool,
    /// the body comes from the rule-relevant generator: acceptance is not demanded, only agreement
    #[serde(default)]
    pub rule_body: bool,
    /// text layout: 0 = blocks back to back, LF inside block 4; 1 = blocks separated by LF (as the library
    /// writes); 2 = CRLF everywhere (between blocks and inside block 4); 3 = back to back, CRLF in block 4
    #[serde(default)]
    pub layout: u8,
}

impl DispCase {
    pub fn text(&self) -> String {
        let b2 = if self.output_header {
            format!("O{}1200240101BANKUS33AXXX00000000002401011201N", self.announced)
        } else {
            format!("I{}BANKUS33AXXXN", self.announced)
        };
        let sep = match self.layout {
            1 => "\n",
            2 => "\r\n",
            _ => "",
        };
        let t = format!(
            "{{1:F01BANKDEFFAXXX0000000000}}{sep}{{2:{b2}}}{sep}{{4:\n{}-}}",
            self.body
        );
        if self.layout >= 2 {
            t.replace("\r\n", "\n").replace('\n', "\r\n")
        } else {
            t
        }
    }
}

/// k-th deterministic valid body of a type (k = 0 is the minimal one)
pub fn body(mt: &str, k: u64, seed: u64) -> Option<String> {
    let data: Vec<u32> = if k == 0 {
        Vec::new()
    } else if k == 1 {
        // every optional present, last option letters, larger repetition counts
        vec![0xFFFF_FFF0; 1500]
    } else {
        (0..1500)
            .map(|i| splitmix(seed ^ (k * 7919 + i)) as u32)
            .collect()
    };
    let mut src = Src::new(&data);
    let mut m = gen_valid_msg(mt, &mut src);
    canonicalise(&mut m).ok()?;
    let mut s = String::new();
    for f in &m.fields {
        s.push_str(&format!(":{}:{}\n", f.tag, f.content));
    }
    Some(s)
}

/// k-th deterministic rule-relevant body of a type: built by the C04 generator, so that most of them
/// violate one or several network rules (the validate entry points must agree on those too)
pub fn rule_body(mt: &str, k: u64, seed: u64) -> String {
    let data: Vec<u32> = (0..1500)
        .map(|i| splitmix(seed ^ 0x5eed ^ (k * 104729 + i)) as u32)
        .collect();
    let mut src = Src::new(&data);
    let m = crate::props::c04::gen_rule_msg(mt, &mut src);
    let mut s = String::new();
    for f in &m.fields {
        s.push_str(&format!(":{}:{}\n", f.tag, f.content));
    }
    s
}

fn supported(code: &str) -> bool {
    MSGS.iter().any(|m| m.mt == code)
}

pub fn oracle(c: &DispCase, obs: &mut Obs) -> Vec<Violation> {
    let mut out = Vec::new();
    let x = c.text();
    obs.nontrivial_str(&format!("{}|{}|{}", c.announced, c.requested, x));
    if !c.requested.is_empty() {
        // typed parse
        let r = (msg_ops(&c.requested).parse_full)(&x);
        if c.requested != c.announced {
            obs.class("typed:mismatch");
            match r {
                Ok(_) => out.push(viol(format!("C12|typed|announced!=requested|accepted|{}", if supported(&c.announced) { "supported" } else { "unsupported" }), format!("parse::<MT{}> accepted a message announcing {}", c.requested, c.announced))),
                Err(LibErr::Parse(ParseError::SwiftValidation(e))) if e.error_code() == "T03" => {}
                Err(LibErr::Parse(e)) => out.push(viol("C12|typed|announced!=requested|wrong-error", format!("parse::<MT{}> of a message announcing {} failed with {:?} instead of the T03 mismatch error", c.requested, c.announced, e))),
                Err(_) => {}
            }
        } else {
            obs.class("typed:match");
            if c.body_mt == c.announced && !c.rule_body {
                if let Err(e) = r {
                    if !e.is_panic() {
                        out.push(viol(
                            format!("C12|typed|MT{}|rejected", c.announced),
                            format!(
                                "valid message rejected by its own typed parser: {}\n{}",
                                e.text(),
                                x
                            ),
                        ));
                    }
                }
            }
        }
        return out;
    }
    // auto-detecting entry points
    let auto = parse_auto(&x);
    obs.sample(
        if supported(&c.announced) {
            "auto:supported"
        } else {
            "auto:unsupported"
        },
        || json!({"announced": c.announced, "body_of": c.body_mt, "text": x}),
    );
    if !supported(&c.announced) {
        obs.class("auto:unsupported-code");
        match &auto {
            Ok(a) => out.push(viol(
                "C12|auto|unsupported|accepted",
                format!(
                    "type {} is not supported but was parsed as MT{}",
                    c.announced, a.message_type
                ),
            )),
            Err(LibErr::Parse(ParseError::UnsupportedMessageType { message_type }))
                if *message_type == c.announced => {}
            Err(LibErr::Parse(e)) => {
                // a malformed block 2 cannot occur here (the code is 3 digits); any other error hides the real cause
                out.push(viol(
                    "C12|auto|unsupported|wrong-error",
                    format!("type {} reported as {:?}", c.announced, e),
                ));
            }
            Err(_) => {}
        }
        if let Ok((data, meta)) = plugin_parse(&x) {
            out.push(viol(
                "C12|plugin-parse|unsupported|accepted",
                format!(
                    "parse_mt accepted unsupported type {}: meta {} data {}",
                    c.announced, meta, data
                ),
            ));
        }
        return out;
    }
    obs.class(if c.announced == c.body_mt {
        "auto:own-body"
    } else {
        "auto:foreign-body"
    });
    let typed = (msg_ops(&c.announced).parse_full)(&x);
    match (&auto, &typed) {
        (Ok(a), Ok(t)) => {
            if a.message_type != c.announced {
                out.push(viol(
                    format!("C12|auto|MT{}|wrong-variant", c.announced),
                    format!(
                        "announced {} parsed as variant {}",
                        c.announced, a.message_type
                    ),
                ));
            }
            let mut inner = a.json.clone();
            if let Some(o) = inner.as_object_mut() {
                o.remove("mt_type");
            }
            if inner != t.json {
                out.push(viol(
                    format!("C12|auto|MT{}|differs-from-typed", c.announced),
                    format!(
                        "parse_auto JSON differs from parse::<T> JSON:\n{}\nvs\n{}",
                        inner, t.json
                    ),
                ));
            }
            if a.json.get("mt_type").and_then(|v| v.as_str()) != Some(c.announced.as_str()) {
                out.push(viol(
                    format!("C12|auto|MT{}|wrong-mt_type-tag", c.announced),
                    format!("serialised variant tag {:?}", a.json.get("mt_type")),
                ));
            }
            if a.as_some != vec![a.message_type]
                || a.into_some.len() != 1
                || a.into_some[0].0 != a.message_type
            {
                out.push(viol(
                    format!("C12|auto|MT{}|accessors", c.announced),
                    format!(
                        "as_mt*: {:?}, into_mt*: {:?}",
                        a.as_some,
                        a.into_some.iter().map(|x| x.0).collect::<Vec<_>>()
                    ),
                ));
            } else if a.into_some[0].1 != t.json {
                out.push(viol(
                    format!("C12|auto|MT{}|into-differs", c.announced),
                    "into_mt*() value differs from the typed parse".to_string(),
                ));
            }
            if a.is_valid != t.is_valid || a.validate_errors != t.validate_errors {
                out.push(viol(
                    format!("C12|auto|MT{}|validate-differs", c.announced),
                    format!(
                        "ParsedSwiftMessage::validate {:?} vs SwiftMessage::validate {:?}",
                        a.validate_errors, t.validate_errors
                    ),
                ));
            }
            // the typed wrapper reports every violated rule, like the rule list itself
            if t.validate_errors.len() != t.body.errs_all.len() {
                out.push(viol(
                    format!("C12|typed|MT{}|validate-count", c.announced),
                    format!(
                        "SwiftMessage::validate reports {} errors, validate_network_rules(false) {}: {:?}",
                        t.validate_errors.len(),
                        t.body.errs_all.len(),
                        t.body.errs_all.iter().map(|e| &e.code).collect::<Vec<_>>()
                    ),
                ));
            }
            // plugins
            match plugin_parse(&x) {
                Ok((data, meta)) => {
                    if data != t.json {
                        out.push(viol(
                            format!("C12|plugin-parse|MT{}|data-differs", c.announced),
                            "parse_mt data differs from typed JSON".to_string(),
                        ));
                    }
                    if meta.get("message_type").and_then(|v| v.as_str())
                        != Some(c.announced.as_str())
                    {
                        out.push(viol(
                            format!("C12|plugin-parse|MT{}|wrong-type", c.announced),
                            format!("metadata {}", meta),
                        ));
                    }
                }
                Err(e) => {
                    if !e.is_panic() {
                        out.push(viol(
                            format!("C12|plugin-parse|MT{}|rejected", c.announced),
                            format!("parse_mt rejects what parse::<T> accepts: {}", e.text()),
                        ));
                    }
                }
            }
            // the same text handed over as the message payload (source = "payload")
            match plugin_parse_payload(&x) {
                Ok((data, _)) => {
                    if data != t.json {
                        out.push(viol(
                            format!("C12|plugin-parse-payload|MT{}|data-differs", c.announced),
                            "parse_mt (payload source) data differs from typed JSON".to_string(),
                        ));
                    }
                }
                Err(e) => {
                    if !e.is_panic() {
                        out.push(viol(
                            format!("C12|plugin-parse-payload|MT{}|rejected", c.announced),
                            format!(
                                "parse_mt (payload source) rejects what parse::<T> accepts: {}",
                                e.text()
                            ),
                        ));
                    }
                }
            }
            match plugin_validate(&x) {
                Ok(v) => {
                    if v.get("message_type").and_then(|x| x.as_str()) != Some(c.announced.as_str())
                    {
                        out.push(viol(
                            format!("C12|plugin-validate|MT{}|wrong-type", c.announced),
                            format!("validate_mt result {}", v),
                        ));
                    }
                    let n_plugin = v
                        .get("errors")
                        .and_then(|a| a.as_array())
                        .map(|a| a.len())
                        .unwrap_or(0);
                    if n_plugin != t.body.errs_all.len() {
                        out.push(viol(
                            format!("C12|plugin-validate|MT{}|count-differs", c.announced),
                            format!(
                                "validate_mt lists {} errors, validate_network_rules(false) {}: {}",
                                n_plugin,
                                t.body.errs_all.len(),
                                v
                            ),
                        ));
                    }
                    if v.get("valid").and_then(|x| x.as_bool()) != Some(t.body.errs_all.is_empty())
                    {
                        out.push(viol(
                            format!("C12|plugin-validate|MT{}|verdict-differs", c.announced),
                            format!(
                                "validate_mt {} vs typed errors {:?}",
                                v,
                                t.body
                                    .errs_all
                                    .iter()
                                    .map(|e| e.code.clone())
                                    .collect::<Vec<_>>()
                            ),
                        ));
                    }
                }
                Err(e) => {
                    if !e.is_panic() {
                        out.push(viol(
                            format!("C12|plugin-validate|MT{}|failed", c.announced),
                            e.text(),
                        ));
                    }
                }
            }
            match plugin_publish(&t.json) {
                Ok(txt) => {
                    if txt != t.mt_message {
                        out.push(viol(
                            format!("C12|plugin-publish|MT{}|differs", c.announced),
                            format!("publish_mt:\n{}\nto_mt_message:\n{}", txt, t.mt_message),
                        ));
                    }
                }
                Err(e) => {
                    if !e.is_panic() {
                        out.push(viol(
                            format!("C12|plugin-publish|MT{}|rejected", c.announced),
                            e.text(),
                        ));
                    }
                }
            }
            // publishing the JSON under another announced type must not silently produce that other type's message with this body
        }
        (Ok(a), Err(e)) => {
            if !e.is_panic() {
                out.push(viol(
                    format!("C12|auto|MT{}|accepted-typed-rejected", c.announced),
                    format!(
                        "parse_auto gives {} but parse::<T> fails: {}",
                        a.message_type,
                        e.text()
                    ),
                ));
            }
        }
        (Err(e), Ok(_)) => {
            if !e.is_panic() {
                out.push(viol(
                    format!("C12|auto|MT{}|rejected-typed-accepted", c.announced),
                    format!("parse::<T> accepts but parse_auto fails: {}", e.text()),
                ));
            }
        }
        (Err(_), Err(e)) => {
            if c.announced == c.body_mt && !c.rule_body && !e.is_panic() {
                out.push(viol(
                    format!("C12|typed|MT{}|rejected", c.announced),
                    format!("valid message rejected: {}\n{}", e.text(), x),
                ));
            }
        }
    }
    out
}

pub fn run(ctx: &Ctx) {
    ctx.add_rule("enumerated: for each of the 30 types, K valid bodies (K=5 quick, 16 thorough; the first minimal, the second with every optional field present), input and output application headers x all 30 requested types through parse::<T>, x all 1000 three-digit codes in block 2 through parse_auto / parse_mt / validate_mt / publish_mt and ParsedSwiftMessage accessors (parse_mt with the text in a data field and as the message payload); the first two bodies also in three other text layouts (blocks separated by LF, CRLF everywhere, CRLF inside block 4 only); plus 40 (thorough 400) rule-relevant bodies per type from the C04 generator (most violate network rules) through the typed, auto-detecting and plugin entry points of their own type; non-trivial = all; distinct by (announced, requested, text)");
    ctx.exhaustive("30 x 30 (announced, requested) pairs; all 1000 type codes per body");
    let k = ctx.n(5, 16) as u64;
    let kr = ctx.n(40, 400) as u64;
    let seed = ctx.seed;
    let to_json = |c: &DispCase| serde_json::to_value(c).unwrap();
    ctx.run_enumerated(
        "dispatch",
        MSGS.len(),
        &|sh| {
            let mt = MSGS[sh].mt;
            let mut v = Vec::new();
            for j in 0..k {
                let b = match body(mt, j, seed) {
                    Some(b) => b,
                    None => continue,
                };
                for u in MSGS {
                    for output_header in [false, true] {
                        v.push(DispCase {
                            body_mt: mt.to_string(),
                            announced: mt.to_string(),
                            requested: u.mt.to_string(),
                            body: b.clone(),
                            output_header,
                            rule_body: false,
                            layout: 0,
                        });
                    }
                }
                for code in 0..1000 {
                    if j > 0 && code % 7 != (j as usize) % 7 && !supported(&format!("{:03}", code))
                    {
                        continue;
                    }
                    v.push(DispCase {
                        body_mt: mt.to_string(),
                        announced: format!("{:03}", code),
                        requested: String::new(),
                        output_header: code % 2 == 1,
                        body: b.clone(),
                        rule_body: false,
                            layout: 0,
                    });
                }
            }
            // text layouts: the first two bodies of the type in the three other layouts, own type, typed and auto
            for j in 0..k.min(2) {
                if let Some(b) = body(mt, j, seed) {
                    for layout in 1..=3u8 {
                        for requested in [mt.to_string(), String::new()] {
                            v.push(DispCase {
                                body_mt: mt.to_string(),
                                announced: mt.to_string(),
                                requested,
                                body: b.clone(),
                                output_header: layout == 2,
                                rule_body: false,
                                layout,
                            });
                        }
                    }
                }
            }
            // rule-violating bodies: own type only, typed + auto + plugins, both header forms
            for j in 0..kr {
                let b = rule_body(mt, j, seed);
                for output_header in [false, true] {
                    v.push(DispCase {
                        body_mt: mt.to_string(),
                        announced: mt.to_string(),
                        requested: mt.to_string(),
                        body: b.clone(),
                        output_header,
                        rule_body: true,
                        layout: 0,
                    });
                    v.push(DispCase {
                        body_mt: mt.to_string(),
                        announced: mt.to_string(),
                        requested: String::new(),
                        body: b.clone(),
                        output_header,
                        rule_body: true,
                        layout: 0,
                    });
                }
            }
            v
        },
        &oracle,
        &to_json,
    );
}

pub fn replay(_ctx: &Ctx, _sub: &str, case: &Value) -> Vec<Violation> {
    let c: DispCase = serde_json::from_value(case.clone()).expect("replay case");
    oracle(&c, &mut Obs::default())
}
