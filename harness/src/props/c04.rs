//! C04 — network validation reports exactly the documented SR2025 rule violations.
use crate::choice::Src;
use crate::driver::{Ctx, Obs, Violation, viol};
use crate::layout::{GenMsg, gen_message};
use crate::lib_api::{MSGS, msg_ops};
use crate::msgkit::*;
use crate::rules::expected_for;
use crate::spec::Comp;
use serde::{Deserialize, Serialize};
use serde_json::{Value, json};
use std::collections::BTreeSet;

const CCY_POOL: &[&str] = &["USD", "EUR", "USD", "EUR", "GBP", "JPY"];
const AMT_POOL: &[&str] = &["100,", "250,50", "1000,", "100,", "99,99", "350,50", "1,"];

fn pick_code(src: &mut Src, pool: &[&str]) -> String {
    src.pick(pool).to_string()
}

/// Rule-relevant contents: codes, currencies and amounts from small pools, so that the
/// antecedents of the documented rules fire often. Everything else comes from the field table.
pub fn rule_hook(mt: &str, tag: &str, src: &mut Src) -> Option<(String, Vec<Comp>)> {
    if let Some(c) = crate::rules::content_hook(mt, tag, src) {
        return Some((c, Vec::new()));
    }
    let t = |s: String| Some((s, Vec::new()));
    let amt = |src: &mut Src, ccy: &str| -> String {
        let a = src.pick(AMT_POOL).to_string();
        if ccy == "JPY" {
            format!("{},", a.split(',').next().unwrap())
        } else {
            a
        }
    };
    match tag {
        "23B" => t(pick_code(
            src,
            &[
                "CRED", "CRED", "CRTS", "SPAY", "SPRI", "SSTD", "URGP", "HOLD",
            ],
        )),
        "23E" => {
            let pool: &[&str] = match mt {
                "103" => &[
                    "CHQB", "CORT", "HOLD", "INTC", "PHOB", "PHOI", "PHON", "REPA", "SDVA", "TELB",
                    "TELE", "TELI", "ZZZZ", "URGP",
                ],
                "101" => &[
                    "CHQB", "CMSW", "CMTO", "CMZB", "CORT", "EQUI", "INTC", "NETS", "OTHR", "PHON",
                    "REPA", "RTGS", "URGP", "ZZZZ", "HOLD",
                ],
                _ => &["AUTH", "NAUT", "OTHR", "RFDD", "RTND", "ZZZZ", "SDVA"],
            };
            let c = pick_code(src, pool);
            if src.chance(1, 3) {
                t(format!("{c}/INFO"))
            } else {
                t(c)
            }
        }
        "71A" => t(pick_code(src, &["OUR", "SHA", "BEN"])),
        "32A" | "32C" | "32D" => {
            let c = pick_code(src, CCY_POOL);
            let a = amt(src, &c);
            t(format!("{}{}{}", crate::spec::gen_date6(src), c, a))
        }
        "32B" | "33B" | "71F" | "71G" => {
            let c = pick_code(src, CCY_POOL);
            let a = amt(src, &c);
            t(format!("{c}{a}"))
        }
        "19" => t(src
            .pick(&["100,", "200,", "350,50", "1100,", "199,99", "450,50", "2,"])
            .to_string()),
        "34F" => {
            let c = pick_code(src, CCY_POOL);
            let a = amt(src, &c);
            let ind = *src.pick(&["", "D", "C"]);
            t(format!("{c}{ind}{a}"))
        }
        "60F" | "60M" | "62F" | "62M" | "64" | "65" => {
            let c = pick_code(src, CCY_POOL);
            let a = amt(src, &c);
            t(format!(
                "{}{}{}{}",
                src.pick(&["C", "D"]),
                crate::spec::gen_date6(src),
                c,
                a
            ))
        }
        "90C" | "90D" => {
            let c = pick_code(src, CCY_POOL);
            let a = amt(src, &c);
            t(format!("{}{}{}", 1 + src.below(20), c, a))
        }
        "72" => {
            if src.chance(1, 2) {
                t(src
                    .pick(&[
                        "/RTND/RETURN REASON",
                        "/REJT/REJECT",
                        "/RETN/99",
                        "/ACC/INFORMATION",
                        "PLAIN TEXT",
                        "/COV/X",
                    ])
                    .to_string())
            } else {
                None
            }
        }
        "12" => t(src
            .pick(&["940", "941", "942", "950", "103", "999"])
            .to_string()),
        "28D" => t(src.pick(&["1/1", "1/2", "2/2", "00001/00001"]).to_string()),
        "79" => {
            if src.chance(1, 2) {
                t(src
                    .pick(&[
                        "/REJT/\nREASON",
                        "NARRATIVE TEXT",
                        ":20:COPY OF FIELDS",
                        "LINE ONE\nLINE TWO",
                    ])
                    .to_string())
            } else {
                None
            }
        }
        _ => None,
    }
}

pub fn gen_rule_msg(mt: &str, src: &mut Src) -> GenMsg {
    let o = crate::layout::GenOpts {
        star_max: 3,
        allow_cap: true,
        over_cap: true,
    };
    gen_message(mt, src, &o, Some(&rule_hook))
}

/// as a MutCase (for C13, which only needs accepted messages with rule violations)
pub fn gen_rule_case(mt: &str, src: &mut Src) -> MutCase {
    let m = gen_rule_msg(mt, src);
    MutCase {
        mt: mt.to_string(),
        toks: toks_of(&m),
        mutation: "rule-relevant".into(),
        tag: String::new(),
        bad_content: false,
        crlf: src.chance(1, 5),
        wrapper: true,
        envelope: true,
    }
}

#[derive(Clone, Debug, Serialize, Deserialize)]
pub struct RuleCase {
    pub msg: GenMsg,
}

pub fn oracle(c: &RuleCase, obs: &mut Obs) -> Vec<Violation> {
    let mut out = Vec::new();
    let mt = c.msg.mt.clone();
    let exp = match expected_for(&c.msg) {
        Some(e) => e,
        None => {
            obs.excluded("no-rules-for-type");
            return out;
        }
    };
    if exp.undetermined.contains("*") {
        obs.excluded("rules-not-transcribed");
        return out;
    }
    let text = c.msg.text(false, true);
    let b = match (msg_ops(&mt).parse_block4)(&text) {
        Ok(b) => b,
        Err(_) => {
            obs.excluded("blocked-by-parse");
            return out;
        }
    };
    // the parsed message must represent the text faithfully, otherwise a parser defect would be booked as a validation defect
    let (_, toks) = crate::refs::tokenize(&b.mt_string);
    if toks.len() != c.msg.fields.len()
        || toks
            .iter()
            .zip(c.msg.fields.iter())
            .any(|(a, f)| a.tag != f.tag)
    {
        obs.excluded("blocked-by-unfaithful-parse");
        return out;
    }
    let got: BTreeSet<String> = b.errs_all.iter().map(|e| e.code.clone()).collect();
    obs.class(&format!("expected-errors:{}", exp.must.len().min(3)));
    if !exp.must.is_empty() || !got.is_empty() {
        obs.nontrivial_str(&text);
    }
    obs.sample(
        if exp.must.is_empty() {
            "rule-clean"
        } else {
            "rule-violating"
        },
        || json!({"mt": mt, "text": text, "expected": exp.must, "reported": got}),
    );
    for code in exp.must.iter() {
        if !got.contains(code) {
            out.push(viol(
                format!("C04|MT{mt}|{code}|missing"),
                format!(
                    "documented rule {code} is violated but not reported (reported: {:?}):\n{}",
                    got, text
                ),
            ));
        }
    }
    for code in got.iter() {
        if !exp.must.contains(code) && !exp.undetermined.contains(code) {
            out.push(viol(format!("C04|MT{mt}|{code}|spurious"), format!("{code} reported although the documented rule is satisfied (expected: {:?}):\n{}", exp.must, text)));
        }
    }
    out
}

pub fn run(ctx: &Ctx) {
    ctx.add_rule("per message type: messages generated from the layout table with rule-relevant contents drawn from small pools (instruction codes incl. invalid ones, 3-4 currencies, a handful of amounts so that sums and equalities hit and miss, code words in 72/79); the generator's own description of the message is fed to an independent re-implementation of the documented rules (harness/src/rules) giving the set of codes that must be reported; compared as sets with validate_network_rules(false) on the parsed message; non-trivial = at least one code expected or reported; distinct by text");
    ctx.assume("reference rules transcribed from the doc comments above validate_* in /repo/src/messages and the SR2025 handbook; ambiguous cases are `undetermined` and not judged");
    ctx.assume("a message whose parse is not faithful (C01/C03 defect) is not judged here (counted as blocked)");
    let to_json = |c: &RuleCase| serde_json::to_value(c).unwrap();
    ctx.run_generated(
        "rules",
        MSGS.len(),
        ctx.n(3000, 80000),
        1800,
        &|sh, src: &mut Src| RuleCase {
            msg: gen_rule_msg(mt_of_shard(sh), src),
        },
        &oracle,
        &to_json,
    );
}

pub fn replay(_ctx: &Ctx, _sub: &str, case: &Value) -> Vec<Violation> {
    let c: RuleCase = serde_json::from_value(case.clone()).expect("replay case");
    oracle(&c, &mut Obs::default())
}
