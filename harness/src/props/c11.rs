//! C11 — dates and times: calendar-valid only, one meaning everywhere, round-trip stable.
use crate::driver::{Ctx, Obs, Violation, viol};
use crate::fieldkit::{leaves, split_swift};
use crate::lib_api::field_ops;
use crate::refs;
use serde::{Deserialize, Serialize};
use serde_json::{Value, json};

/// (field type, content prefix before the date, content suffix after it)
pub const DATE_FIELDS: &[(&str, &str, &str)] = &[
    ("Field11R", "103", ""),
    ("Field11S", "103", "1234567890"),
    ("Field11", "103", ""),
    ("Field13D", "", "1200+0100"),
    ("Field30", "", ""),
    ("Field32A", "", "USD1,00"),
    ("Field32C", "", "USD1,00"),
    ("Field32D", "", "USD1,00"),
    ("Field60F", "C", "USD1,00"),
    ("Field60M", "D", "USD1,00"),
    ("Field61", "", "C1,00NTRFREF"),
    ("Field62F", "C", "USD1,00"),
    ("Field62M", "D", "USD1,00"),
    ("Field64", "C", "USD1,00"),
    ("Field65", "C", "USD1,00"),
];

#[derive(Clone, Debug, Serialize, Deserialize)]
pub struct DateCase {
    pub field: String,
    pub prefix: String,
    pub date: String,
    pub suffix: String,
    /// "date6" | "hhmm" | "offset" | "mmdd"
    pub kind: String,
}

impl DateCase {
    pub fn content(&self) -> String {
        format!("{}{}{}", self.prefix, self.date, self.suffix)
    }
}

fn iso_of(json: &Value) -> Option<(i32, u32, u32)> {
    let mut ls = Vec::new();
    leaves(json, &mut ls);
    for l in ls {
        if let Value::String(s) = l {
            let b = s.as_bytes();
            if s.len() == 10 && b[4] == b'-' && b[7] == b'-' {
                if let (Ok(y), Ok(m), Ok(d)) = (s[0..4].parse(), s[5..7].parse(), s[8..10].parse())
                {
                    return Some((y, m, d));
                }
            }
        }
    }
    None
}

fn yy_class(d: &str) -> &'static str {
    match d.get(0..2).and_then(|s| s.parse::<u32>().ok()) {
        Some(y) if y <= 49 => "yy00-49",
        Some(y) if y <= 79 => "yy50-79",
        Some(_) => "yy80-99",
        None => "non-digit",
    }
}

pub fn oracle(c: &DateCase, obs: &mut Obs) -> Vec<Violation> {
    let mut out = Vec::new();
    let content = c.content();
    let ops = field_ops(&c.field);
    let res = (ops.parse)(&content);
    let f = &c.field;
    match c.kind.as_str() {
        "date6" => {
            let digits = c.date.len() == 6 && c.date.bytes().all(|b| b.is_ascii_digit());
            let some = digits && refs::valid6_some_century(&c.date);
            let all = digits && refs::valid6_all_centuries(&c.date);
            if some {
                obs.nontrivial_str(&format!("{f}|{content}"));
            }
            match &res {
                Ok(v) => {
                    if !some {
                        let why = if digits {
                            "not-a-calendar-date"
                        } else {
                            "not-six-digits"
                        };
                        out.push(viol(
                            format!("C11|{f}|invalid-accepted|{why}"),
                            format!("{:?} accepted as {}", content, v.json),
                        ));
                        return out;
                    }
                    // the year the field chose must make the date real (Feb 29)
                    let iso = iso_of(&v.json);
                    if let Some((y, m, d)) = iso {
                        if !refs::valid_ymd(y, m, d) {
                            out.push(viol(
                                format!("C11|{f}|invalid-accepted|not-real-in-chosen-year"),
                                format!("{:?} read as {y}-{m}-{d}", content),
                            ));
                        }
                        let (_, mm, dd) = refs::split6(&c.date).unwrap();
                        if m != mm
                            || d != dd
                            || (y % 100) as u32 != refs::split6(&c.date).unwrap().0
                        {
                            out.push(viol(
                                format!("C11|{f}|digits-misread"),
                                format!("{:?} read as {y}-{m}-{d}", content),
                            ));
                        }
                        // one meaning everywhere: same year as field 32A gives to the same six digits
                        if f != "Field32A" {
                            if let Ok(r) =
                                (field_ops("Field32A").parse)(&format!("{}USD1,00", c.date))
                            {
                                if let Some((ry, _, _)) = iso_of(&r.json) {
                                    if ry != y {
                                        out.push(viol(
                                            format!(
                                                "C11|{f}|differs-from-32A|{}",
                                                yy_class(&c.date)
                                            ),
                                            format!(
                                                "{} means {} in {f} but {} in 32A",
                                                c.date, y, ry
                                            ),
                                        ));
                                    }
                                }
                            }
                        }
                    }
                    // serialising reproduces the digits
                    match split_swift(&v.swift) {
                        Some((_, cc)) if cc == content => {}
                        other => out.push(viol(
                            format!("C11|{f}|digits-changed"),
                            format!("{:?} serialised as {:?}", content, other),
                        )),
                    }
                    // MT and JSON agree
                    match (ops.from_json)(&v.json) {
                        Ok(v2) => {
                            if v2.swift != v.swift || v2.debug != v.debug {
                                out.push(viol(
                                    format!("C11|{f}|json-differs|{}", yy_class(&c.date)),
                                    format!(
                                        "{:?}: MT {:?} but after JSON round trip {:?} (json {})",
                                        content, v.swift, v2.swift, v.json
                                    ),
                                ));
                            }
                        }
                        Err(e) => {
                            if !e.is_panic() {
                                out.push(viol(
                                    format!("C11|{f}|json-rejected"),
                                    format!(
                                        "{:?}: own JSON {} rejected: {}",
                                        content,
                                        v.json,
                                        e.text()
                                    ),
                                ));
                            }
                        }
                    }
                }
                Err(e) => {
                    if all && !e.is_panic() {
                        out.push(viol(
                            format!("C11|{f}|valid-rejected|{}", yy_class(&c.date)),
                            format!("{:?} rejected: {}", content, e.text()),
                        ));
                    }
                }
            }
        }
        "hhmm" | "mmdd" => {
            let valid = if c.kind == "hhmm" {
                refs::valid_hhmm(&c.date)
            } else {
                c.date.len() == 4
                    && c.date.bytes().all(|b| b.is_ascii_digit())
                    && refs::valid_ymd(
                        2000,
                        c.date[0..2].parse().unwrap(),
                        c.date[2..4].parse().unwrap(),
                    )
            };
            let surely = if c.kind == "hhmm" {
                valid
            } else {
                c.date.len() == 4
                    && c.date.bytes().all(|b| b.is_ascii_digit())
                    && refs::valid_ymd(
                        2001,
                        c.date[0..2].parse().unwrap(),
                        c.date[2..4].parse().unwrap(),
                    )
            };
            if valid {
                obs.nontrivial_str(&format!("{f}|{content}"));
            }
            match &res {
                Ok(v) => {
                    if !valid {
                        out.push(viol(
                            format!("C11|{f}|invalid-accepted|{}", c.kind),
                            format!("{:?} accepted as {}", content, v.json),
                        ));
                    } else {
                        match split_swift(&v.swift) {
                            Some((_, cc)) if cc == content => {}
                            other => out.push(viol(
                                format!("C11|{f}|digits-changed|{}", c.kind),
                                format!("{:?} serialised as {:?}", content, other),
                            )),
                        }
                        if let Ok(v2) = (ops.from_json)(&v.json) {
                            if v2.swift != v.swift {
                                out.push(viol(
                                    format!("C11|{f}|json-differs|{}", c.kind),
                                    format!("{:?} vs {:?}", v.swift, v2.swift),
                                ));
                            }
                        }
                    }
                }
                Err(e) => {
                    if surely && !e.is_panic() {
                        out.push(viol(
                            format!("C11|{f}|valid-rejected|{}", c.kind),
                            format!("{:?} rejected: {}", content, e.text()),
                        ));
                    }
                }
            }
        }
        _ => {
            // signed offset: c.date = sign + 4 digits
            let sign_ok = c.date.starts_with('+') || c.date.starts_with('-');
            let d = &c.date[1..];
            let digits = d.len() == 4 && d.bytes().all(|b| b.is_ascii_digit());
            let (h, m) = if digits {
                (
                    d[0..2].parse::<u32>().unwrap(),
                    d[2..4].parse::<u32>().unwrap(),
                )
            } else {
                (99, 99)
            };
            // 'up to 14 hours' is what both 13C and 13D document for the UTC offset
            let must_reject = !sign_ok || !digits || h > 14 || m > 59;
            let must_accept = sign_ok && digits && h <= 13 && m <= 59;
            if must_accept {
                obs.nontrivial_str(&format!("{f}|{content}"));
            }
            match &res {
                Ok(v) => {
                    if must_reject {
                        out.push(viol(
                            format!("C11|{f}|invalid-accepted|offset"),
                            format!("{:?} accepted", content),
                        ));
                    } else {
                        match split_swift(&v.swift) {
                            Some((_, cc)) if cc == content => {}
                            other => out.push(viol(
                                format!("C11|{f}|digits-changed|offset"),
                                format!("{:?} serialised as {:?}", content, other),
                            )),
                        }
                    }
                }
                Err(e) => {
                    if must_accept && !e.is_panic() {
                        out.push(viol(
                            format!("C11|{f}|valid-rejected|offset"),
                            format!("{:?} rejected: {}", content, e.text()),
                        ));
                    }
                }
            }
        }
    }
    out
}

pub fn run(ctx: &Ctx) {
    ctx.add_rule("exhaustive: all 1,000,000 six-digit strings through each of the 15 date-bearing fields (embedded in an otherwise fixed valid content); all 10,000 HHMM strings through 13C and 13D; all 2 x 10,000 signed offsets through 13C and 13D; all 10,000 MMDD entry dates through 61; plus non-digit six-character near misses; oracle: own proleptic Gregorian calendar; non-trivial = the string denotes a real date/time; distinct by (field, content)");
    ctx.exhaustive("10^6 six-digit strings x 15 fields; 10^4 HHMM x 2 fields; 2 x 10^4 offsets x 2 fields; 10^4 MMDD x field 61");
    ctx.assume("offset hours 15..23 must be rejected (the library documents 'up to 14 hours' for 13C and 13D), 14:01..14:59 are undetermined; Feb 29 is judged with the year the field itself reports");
    let to_json = |c: &DateCase| serde_json::to_value(c).unwrap();
    // shards: field x first two digits
    let nsh = DATE_FIELDS.len() * 100;
    ctx.run_enumerated(
        "date6",
        nsh,
        &|sh| {
            let (f, p, s) = DATE_FIELDS[sh / 100];
            let yy = sh % 100;
            (0..10000)
                .map(|k| DateCase {
                    field: f.to_string(),
                    prefix: p.to_string(),
                    date: format!("{:02}{:04}", yy, k),
                    suffix: s.to_string(),
                    kind: "date6".into(),
                })
                .collect()
        },
        &oracle,
        &to_json,
    );
    let near: Vec<&str> = vec![
        "+1+2+3",
        " 10101",
        "1 0101",
        "24010 ",
        "٢٤٠١٠١",
        "24-101",
        "2401.1",
        "24011",
        "2401011",
        "ABCDEF",
        "-10101",
        "2４0101",
    ];
    ctx.run_enumerated(
        "near-miss",
        DATE_FIELDS.len(),
        &|sh| {
            let (f, p, s) = DATE_FIELDS[sh];
            near.iter()
                .map(|d| DateCase {
                    field: f.to_string(),
                    prefix: p.to_string(),
                    date: d.to_string(),
                    suffix: s.to_string(),
                    kind: "date6".into(),
                })
                .collect()
        },
        &oracle,
        &to_json,
    );
    ctx.run_enumerated(
        "times",
        6,
        &|sh| match sh {
            0 => (0..10000)
                .map(|k| DateCase {
                    field: "Field13C".into(),
                    prefix: "/SNDTIME/".into(),
                    date: format!("{:04}", k),
                    suffix: "+0100".into(),
                    kind: "hhmm".into(),
                })
                .collect(),
            1 => (0..10000)
                .map(|k| DateCase {
                    field: "Field13D".into(),
                    prefix: "240101".into(),
                    date: format!("{:04}", k),
                    suffix: "+0100".into(),
                    kind: "hhmm".into(),
                })
                .collect(),
            2 => (0..20000)
                .map(|k| DateCase {
                    field: "Field13C".into(),
                    prefix: "/CLSTIME/1200".into(),
                    date: format!("{}{:04}", if k < 10000 { "+" } else { "-" }, k % 10000),
                    suffix: "".into(),
                    kind: "offset".into(),
                })
                .collect(),
            3 => (0..20000)
                .map(|k| DateCase {
                    field: "Field13D".into(),
                    prefix: "2401011200".into(),
                    date: format!("{}{:04}", if k < 10000 { "+" } else { "-" }, k % 10000),
                    suffix: "".into(),
                    kind: "offset".into(),
                })
                .collect(),
            4 => (0..10000)
                .map(|k| DateCase {
                    field: "Field61".into(),
                    prefix: "240101".into(),
                    date: format!("{:04}", k),
                    suffix: "C1,00NTRFREF".into(),
                    kind: "mmdd".into(),
                })
                .collect(),
            _ => ["*0100", "=0100", " 0100", "10100"]
                .iter()
                .map(|d| DateCase {
                    field: "Field13C".into(),
                    prefix: "/SNDTIME/1200".into(),
                    date: d.to_string(),
                    suffix: "".into(),
                    kind: "offset".into(),
                })
                .collect(),
        },
        &oracle,
        &to_json,
    );
    let _ = json!(null);
}

pub fn replay(_ctx: &Ctx, _sub: &str, case: &Value) -> Vec<Violation> {
    let c: DateCase = serde_json::from_value(case.clone()).expect("replay case");
    oracle(&c, &mut Obs::default())
}
