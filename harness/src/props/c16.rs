//! C16 — the field-map tokeniser and sequential consumption lose and reorder nothing.
use crate::choice::Src;
use crate::driver::{Ctx, Obs, Violation, viol};
use crate::lib_api::*;
use crate::msgkit::*;
use crate::refs::{Tok, tokenize};
use serde::{Deserialize, Serialize};
use serde_json::{Value, json};
use std::collections::BTreeMap;

#[derive(Clone, Debug, Serialize, Deserialize)]
pub struct TokCase {
    pub mt: String,
    pub text: String,
    pub ops: Vec<TrackerOp>,
    pub class: String,
}

/// field numbers whose option letter the tokeniser is documented to keep (doc comment and table of
/// normalize_field_tag at the pinned commit)
const LETTER_KEPT: &[&str] = &[
    "11", "13", "21", "23", "25", "26", "28", "32", "33", "34", "37", "50", "51", "52", "53", "54",
    "55", "56", "57", "58", "59", "60", "62", "71", "77", "90",
];

fn numeric_base(tag: &str) -> String {
    tag.chars().take_while(|c| c.is_ascii_digit()).collect()
}

pub fn generate(mt: &str, src: &mut Src) -> TokCase {
    // well-delimited texts: content lines never start with ':' or '-' (generators guarantee it)
    let mut c = mutate_msg(mt, src);
    c.wrapper = true;
    let class = c.mutation.clone();
    build_case(mt, &c.toks, c.crlf, class, 40, src)
}

/// field counts around the powers of two a position stamp could wrap at
pub const BULK_SIZES_QUICK: &[usize] = &[
    130, 255, 256, 257, 300, 511, 512, 513, 700, 1023, 1024, 1025, 2049, 4097,
];
pub const BULK_SIZES_THOROUGH: &[usize] = &[8193, 16385, 32769, 65535, 65536];

/// bulk texts: the token lists of several generated messages of the type one after the other, cut
/// at exactly `n` fields, with a longer history that tends to drain one tag completely
pub fn generate_bulk(mt: &str, n: usize, src: &mut Src) -> TokCase {
    let mut toks: Vec<Tok> = Vec::new();
    let mut crlf = false;
    while toks.len() < n {
        let c = mutate_msg(mt, src);
        crlf = c.crlf;
        if c.toks.is_empty() {
            toks.push(Tok {
                tag: "20".into(),
                content: "FILL".into(),
            });
        }
        toks.extend(c.toks);
    }
    toks.truncate(n);
    build_case(mt, &toks, crlf, format!("bulk:{n}"), 600, src)
}

fn build_case(
    mt: &str,
    toks: &[Tok],
    crlf: bool,
    class: String,
    max_ops: usize,
    src: &mut Src,
) -> TokCase {
    let nl = if crlf { "\r\n" } else { "\n" };
    // one text in four has mixed line ends: each field boundary draws LF or CRLF on its own
    let mixed = src.chance(1, 4);
    let mut text = String::new();
    let lead = src.below(3);
    for _ in 0..lead {
        text.push_str(nl);
    }
    for t in toks {
        let e = if mixed {
            if src.flip() { "\r\n" } else { "\n" }
        } else {
            nl
        };
        text.push_str(&format!(":{}:{}{}", t.tag, t.content.replace('\n', e), e));
    }
    for _ in 0..src.below(2) {
        text.push_str(nl);
    }
    // a history of consumption requests over the tags of the text
    let tags: Vec<String> = toks.iter().map(|t| t.tag.clone()).collect();
    let mut ops = Vec::new();
    let n_ops = src.below(max_ops);
    // bulk histories: one tag (by its base) is asked for again and again
    let focus = if max_ops > 40 && !tags.is_empty() {
        Some(tags[src.below(tags.len())].clone())
    } else {
        None
    };
    for _ in 0..n_ops {
        let t = if tags.is_empty() {
            "20".to_string()
        } else if let (Some(f), true) = (&focus, src.chance(3, 4)) {
            f.clone()
        } else {
            tags[src.below(tags.len())].clone()
        };
        let base = numeric_base(&t);
        match src.below(7) {
            6 => {
                let occ = tags.iter().filter(|x| **x == t).count().max(1);
                let k = src.below(occ);
                ops.push(TrackerOp::TakeSlice(t, k, 1 + src.below(occ)))
            }
            5 => {
                let occ = tags.iter().filter(|x| **x == t).count().max(1);
                ops.push(TrackerOp::Mark(t, src.below(occ)))
            }
            0 => ops.push(TrackerOp::Peek(t)),
            1 | 2 => ops.push(TrackerOp::Take(t)),
            3 => ops.push(TrackerOp::Find(base, None)),
            _ => {
                let letters: Vec<String> = tags
                    .iter()
                    .filter(|x| numeric_base(x) == base && x.len() > base.len())
                    .map(|x| x[base.len()..].to_string())
                    .collect();
                let mut cons: Vec<String> = letters.into_iter().filter(|_| src.flip()).collect();
                cons.sort();
                cons.dedup();
                if src.chance(1, 4) {
                    cons.push("Z".into());
                }
                ops.push(TrackerOp::Find(base, Some(cons)));
            }
        }
    }
    TokCase {
        mt: mt.to_string(),
        text,
        ops,
        class,
    }
}

fn norm_ws(s: &str) -> String {
    s.replace("\r\n", "\n").trim().to_string()
}

pub fn oracle(c: &TokCase, obs: &mut Obs) -> Vec<Violation> {
    let mut out = Vec::new();
    let (pre, toks): (String, Vec<Tok>) = tokenize(&c.text);
    if !pre.trim().is_empty() {
        obs.excluded("text-before-first-field");
        return out;
    }
    let multi = {
        let mut seen = std::collections::HashSet::new();
        toks.iter().any(|t| !seen.insert(t.tag.clone()))
    };
    let mixes = c.ops.iter().any(|o| matches!(o, TrackerOp::Find(..)))
        && c.ops.iter().any(|o| matches!(o, TrackerOp::Take(..)));
    if multi || mixes {
        obs.nontrivial_str(&format!("{}|{:?}", c.text, c.ops));
    }
    obs.class(&format!("text:{}", c.class));
    obs.sample("text", || json!({"text": c.text, "ops": c.ops.len()}));
    let map = match block4_fields(&c.text) {
        Ok(m) => m,
        Err(e) => {
            if !e.is_panic() {
                out.push(viol(
                    "C16|tokenise|rejected",
                    format!("well-delimited text rejected: {}\n{}", e.text(), c.text),
                ));
            }
            return out;
        }
    };
    // flatten by position
    let mut flat: Vec<(String, String, usize)> = Vec::new();
    for (k, vs) in &map {
        for (v, p) in vs {
            flat.push((k.clone(), v.clone(), *p));
        }
    }
    flat.sort_by_key(|x| x.2);
    {
        // position stamps must identify an occurrence (they are the only order information of the map)
        let mut ps: Vec<usize> = flat.iter().map(|x| x.2).collect();
        ps.dedup();
        let mut q = ps.clone();
        q.sort();
        q.dedup();
        if q.len() != flat.len() {
            let size = if flat.len() > 65536 { "over-65536-fields" } else { "up-to-65536-fields" };
            out.push(viol(format!("C16|tokenise|position-stamps-collide|{size}"), format!("{} entries but only {} distinct position stamps", flat.len(), q.len())));
            return out;
        }
    }
    if flat.len() != toks.len() {
        let class = if flat.len() < toks.len() {
            "lost"
        } else {
            "invented"
        };
        out.push(viol(
            format!("C16|tokenise|{class}"),
            format!(
                "{} fields in the text, {} entries in the map\n{}\n{:?}",
                toks.len(),
                flat.len(),
                c.text,
                flat
            ),
        ));
        return out;
    }
    let mut keymap: BTreeMap<String, String> = BTreeMap::new();
    for (i, (t, f)) in toks.iter().zip(flat.iter()).enumerate() {
        let base = numeric_base(&t.tag);
        if f.0 != t.tag && f.0 != base {
            out.push(viol(
                "C16|tokenise|order-or-tag",
                format!(
                    "entry {i} in position order is {:?} but field {i} of the text is {}:{:?}",
                    f, t.tag, t.content
                ),
            ));
            return out;
        }
        // option letter removed only where the library documents it: normalize_field_tag keeps the
        // letter for these field numbers ("to avoid conflicts", src/parser/generated.rs)
        if f.0 != t.tag && f.0 == base && LETTER_KEPT.contains(&base.as_str()) {
            out.push(viol(
                format!("C16|tokenise|letter-removed|{base}"),
                format!(
                    "field {} is stored under {} although the library documents that field {} keeps its option letter",
                    t.tag, f.0, base
                ),
            ));
            return out;
        }
        if norm_ws(&f.1) != norm_ws(&t.content) {
            out.push(viol(
                "C16|tokenise|content",
                format!(
                    "field {} content {:?} stored as {:?}",
                    t.tag, t.content, f.1
                ),
            ));
            return out;
        }
        if let Some(prev) = keymap.insert(t.tag.clone(), f.0.clone()) {
            if prev != f.0 {
                out.push(viol(
                    "C16|tokenise|tag-normalisation",
                    format!("raw tag {} stored under {} and under {}", t.tag, prev, f.0),
                ));
            }
        }
        if i > 0 && flat[i].2 <= flat[i - 1].2 {
            out.push(viol(
                "C16|tokenise|positions-not-increasing",
                format!("position stamps {} then {}", flat[i - 1].2, flat[i].2),
            ));
            return out;
        }
    }
    // normalisation is idempotent and agrees with the map keys
    for (raw, key) in &keymap {
        if let Ok(n) = normalize_tag(raw) {
            if &n != key {
                out.push(viol(
                    "C16|tokenise|tag-normalisation",
                    format!("normalize_field_tag({raw}) = {n} but the map uses {key}"),
                ));
            }
            if let Ok(n2) = normalize_tag(&n) {
                if n2 != n {
                    out.push(viol(
                        "C16|tokenise|tag-normalisation",
                        format!("normalisation not idempotent: {raw} -> {n} -> {n2}"),
                    ));
                }
            }
        }
    }
    // ---- tracker history against a model
    if !c.ops.is_empty() {
        obs.class("history");
        match run_tracker(&map, &c.ops) {
            Err(e) => {
                if !e.is_panic() {
                    out.push(viol("C16|tracker|failed", e.text()));
                }
            }
            Ok(res) => {
                // model: per key, consumed positions
                let mut consumed: BTreeMap<String, Vec<usize>> = BTreeMap::new();
                for (op, r) in c.ops.iter().zip(res.iter()) {
                    match op {
                        TrackerOp::Peek(tag) | TrackerOp::Take(tag) => {
                            let exp = map
                                .get(tag)
                                .and_then(|vs| {
                                    vs.iter().find(|(_, p)| {
                                        !consumed.get(tag).map(|c| c.contains(p)).unwrap_or(false)
                                    })
                                })
                                .map(|(v, p)| (tag.clone(), v.clone(), *p));
                            if *r != exp {
                                out.push(viol(
                                    "C16|tracker|next-available",
                                    format!("{:?}: expected {:?}, got {:?}", op, exp, r),
                                ));
                                return out;
                            }
                            if let (TrackerOp::Take(_), Some((_, _, p))) = (op, r) {
                                consumed.entry(tag.clone()).or_default().push(*p);
                            }
                        }
                        TrackerOp::TakeSlice(tag, k, n) => {
                            let exp = map.get(tag).and_then(|vs| {
                                let mut ps: Vec<(String, usize)> = vs.clone();
                                ps.sort_by_key(|x| x.1);
                                let lo = (*k).min(ps.len());
                                let hi = (lo + *n).min(ps.len());
                                ps[lo..hi]
                                    .iter()
                                    .find(|(_, p)| {
                                        !consumed.get(tag).map(|c| c.contains(p)).unwrap_or(false)
                                    })
                                    .map(|(v, p)| (tag.clone(), v.clone(), *p))
                            });
                            if *r != exp {
                                out.push(viol(
                                    "C16|tracker|next-available-in-sublist",
                                    format!("{:?}: expected {:?}, got {:?}", op, exp, r),
                                ));
                                return out;
                            }
                            if let Some((_, _, p)) = r {
                                consumed.entry(tag.clone()).or_default().push(*p);
                            }
                        }
                        TrackerOp::Mark(tag, k) => {
                            let exp = map.get(tag).and_then(|vs| {
                                let mut ps: Vec<(String, usize)> = vs.clone();
                                ps.sort_by_key(|x| x.1);
                                ps.get(*k).cloned()
                            });
                            if let Some((_, p)) = exp {
                                let e = consumed.entry(tag.clone()).or_default();
                                if !e.contains(&p) {
                                    e.push(p);
                                }
                            }
                        }
                        TrackerOp::Find(base, cons) => {
                            // eligible keys: exact `base`, or base + one letter allowed by the constraint
                            let eligible = |k: &String| -> bool {
                                if k == base {
                                    return true;
                                }
                                if k.len() == base.len() + 1 && k.starts_with(base.as_str()) {
                                    let l = &k[base.len()..];
                                    if !l.chars().all(|c| c.is_ascii_uppercase()) {
                                        return false;
                                    }
                                    return match cons {
                                        None => true,
                                        Some(v) => v.iter().any(|x| x == l),
                                    };
                                }
                                false
                            };
                            let remaining: Vec<(String, usize)> = map
                                .iter()
                                .filter(|(k, _)| eligible(k))
                                .flat_map(|(k, vs)| {
                                    vs.iter()
                                        .filter(|(_, p)| {
                                            !consumed.get(k).map(|c| c.contains(p)).unwrap_or(false)
                                        })
                                        .map(|(_, p)| (k.clone(), *p))
                                        .collect::<Vec<_>>()
                                })
                                .collect();
                            match r {
                                None => {
                                    if !remaining.is_empty() {
                                        out.push(viol(
                                            "C16|tracker|find-misses-occurrence",
                                            format!(
                                                "{:?} returned None although {:?} are unconsumed",
                                                op, remaining
                                            ),
                                        ));
                                        return out;
                                    }
                                }
                                Some((k, v, p)) => {
                                    if !remaining.iter().any(|(rk, rp)| rk == k && rp == p) {
                                        out.push(viol("C16|tracker|find-returns-consumed-or-foreign", format!("{:?} returned {:?} which is not an unconsumed eligible occurrence {:?}", op, (k, v, p), remaining)));
                                        return out;
                                    }
                                    // the exact (letterless) tag is served first (documented in
                                    // the function); otherwise the earliest unconsumed eligible
                                    // occurrence in input order, whatever its option letter
                                    let exact = remaining
                                        .iter()
                                        .filter(|(rk, _)| rk == base)
                                        .map(|(_, rp)| *rp)
                                        .min();
                                    let first = exact.unwrap_or_else(|| {
                                        remaining.iter().map(|(_, rp)| *rp).min().unwrap()
                                    });
                                    if *p != first {
                                        out.push(viol("C16|tracker|find-out-of-order", format!("{:?} returned position {} of {} although position {} is still unconsumed ({:?})", op, p, k, first, remaining)));
                                        return out;
                                    }
                                    let stored = map
                                        .get(k)
                                        .and_then(|vs| vs.iter().find(|(_, q)| q == p))
                                        .map(|x| x.0.clone());
                                    if stored.as_deref() != Some(v.as_str()) {
                                        out.push(viol(
                                            "C16|tracker|find-wrong-value",
                                            format!(
                                                "{:?} returned value {:?} for position {}",
                                                op, v, p
                                            ),
                                        ));
                                    }
                                    consumed.entry(k.clone()).or_default().push(*p);
                                }
                            }
                        }
                    }
                }
            }
        }
    }
    // ---- sequences: every field in exactly one sequence
    let (marker, cf, has_c) = sequence_config(&format!("MT{}", c.mt));
    for (m, cfv, hc, which) in [
        (marker.clone(), cf.clone(), has_c, "own-config"),
        (
            "21".to_string(),
            vec!["32B".to_string(), "19".to_string()],
            true,
            "generic-config",
        ),
        (
            "61".to_string(),
            vec!["62F".to_string(), "64".to_string(), "86".to_string()],
            true,
            "statement-config",
        ),
    ] {
        match split_sequences(&map, &m, &cfv, hc) {
            Err(e) => {
                if !e.is_panic() {
                    out.push(viol(format!("C16|sequences|failed|{which}"), e.text()));
                }
            }
            Ok((a, b, cc)) => {
                let mut all: Vec<(String, String, usize)> = Vec::new();
                for part in [&a, &b, &cc] {
                    for (k, vs) in part {
                        for (v, p) in vs {
                            all.push((k.clone(), v.clone(), *p));
                        }
                    }
                }
                all.sort_by_key(|x| x.2);
                if all != flat {
                    let class = if all.len() < flat.len() {
                        "lost"
                    } else if all.len() > flat.len() {
                        "duplicated"
                    } else {
                        "changed"
                    };
                    out.push(viol(
                        format!("C16|sequences|{class}|{which}"),
                        format!(
                            "sequences A+B+C hold {} entries, the map {}",
                            all.len(),
                            flat.len()
                        ),
                    ));
                }
            }
        }
    }
    if let Ok(items) = repetitive_sequence(&map, &marker) {
        let mut all: Vec<(String, String, usize)> = Vec::new();
        for it in &items {
            for (k, vs) in it {
                for (v, p) in vs {
                    all.push((k.clone(), v.clone(), *p));
                }
            }
        }
        all.sort_by_key(|x| x.2);
        let first_marker = flat.iter().position(|x| x.0 == marker);
        let expect: Vec<(String, String, usize)> = match first_marker {
            Some(i) => flat[i..].to_vec(),
            None => Vec::new(),
        };
        if all != expect {
            out.push(viol(
                "C16|repetitive|not-a-partition",
                format!(
                    "items hold {} entries, expected the {} fields from the first {} on",
                    all.len(),
                    expect.len(),
                    marker
                ),
            ));
        }
    }
    out
}

pub fn run(ctx: &Ctx) {
    ctx.add_rule("bulk texts (token lists of several generated messages concatenated and cut at 130..4097 fields around every power of two; up to 65 536 in the thorough tier) with histories of up to 600 requests focused on one tag; and per message type: well-delimited block-4 texts (valid and structurally mutated: unknown tags, duplicates, reorderings; LF, CRLF or a mix of both from field to field; leading/trailing blank lines) as extract_block returns them, plus a history of up to 40 consumption requests (peek / take by tag, find by base tag with and without option constraints, mark the k-th occurrence consumed out of order, take from a sub-list of a tag's occurrences as with per-sequence maps); oracle: reference tokenizer list == map flattened by position (tag or its numeric base, content up to surrounding white space, positions strictly increasing), a per-tag model of the tracker, and partition checks for split_into_sequences / parse_repetitive_sequence; non-trivial = a tag occurs twice, or a history mixing take and find; distinct by text/history");
    ctx.assume("the option letter may be removed only for field numbers outside the table normalize_field_tag documents (11 13 21 23 25 26 28 32 33 34 37 50-60 62 71 77 90)");
    ctx.assume("domain: content lines never start with ':' or '-' and nothing precedes the first field (the tokeniser's behaviour there is documented nowhere)");
    ctx.assume("find-by-base: the letterless tag is served before lettered ones (the function documents it); among lettered tags the earliest unconsumed eligible occurrence in input order is expected");
    let to_json = |c: &TokCase| serde_json::to_value(c).unwrap();
    ctx.run_generated(
        "tokens",
        MSGS.len(),
        ctx.n(2000, 50000),
        2000,
        &|sh, src: &mut Src| generate(mt_of_shard(sh), src),
        &oracle,
        &to_json,
    );
    // bulk texts: field counts around every power of two up to 4096 (65 536 in the thorough tier)
    let mut sizes: Vec<usize> = BULK_SIZES_QUICK.to_vec();
    if !ctx.quick() {
        sizes.extend_from_slice(BULK_SIZES_THOROUGH);
    }
    let per_size = ctx.n(20, 20);
    let bulk_types = ["101", "104", "940", "942", "103", "202", "920", "935"];
    let to_json_bulk = |c: &TokCase| serde_json::to_value(c).unwrap();
    ctx.run_generated(
        "bulk",
        sizes.len(),
        per_size,
        60000,
        &|sh, src: &mut Src| {
            let mt = *src.pick(&bulk_types);
            generate_bulk(mt, sizes[sh % sizes.len()], src)
        },
        &oracle,
        &to_json_bulk,
    );
    if !ctx.quick() {
        // > 65 536 fields: position stamps must still be strictly increasing
        let big: Vec<TokCase> = vec![TokCase {
            mt: "940".into(),
            text: (0..66000)
                .map(|i| format!(":61:LINE{i}\n"))
                .collect::<String>(),
            ops: vec![],
            class: "65536+".into(),
        }];
        ctx.run_enumerated(
            "huge",
            1,
            &|_| big.clone(),
            &oracle,
            &|c: &TokCase| json!({"mt": c.mt, "class": c.class, "fields": 66000}),
        );
    }
}

pub fn replay(_ctx: &Ctx, _sub: &str, case: &Value) -> Vec<Violation> {
    match serde_json::from_value::<TokCase>(case.clone()) {
        Ok(c) => oracle(&c, &mut Obs::default()),
        Err(_) => Vec::new(),
    }
}
