//! C05 — field parsers accept exactly their documented format.
use crate::choice::Src;
use crate::driver::{Ctx, Obs, Violation, viol};
use crate::fieldkit::*;
use crate::spec::Verdict;
use serde_json::{Value, json};

pub fn oracle(c: &FieldCase, obs: &mut Obs) -> Vec<Violation> {
    oracle_with(c, obs, false)
}

/// `judge_undetermined`: also check faithfulness of accepted inputs whose verdict is
/// Undetermined (done only in the deterministic grid, so that these signatures do not
/// depend on the seed)
pub fn oracle_with(c: &FieldCase, obs: &mut Obs, judge_undetermined: bool) -> Vec<Violation> {
    let mut out = Vec::new();
    let verdict = verdict_of(c);
    let res = parse_case(c);
    obs.class(&format!("verdict:{:?}", verdict));
    if verdict != Verdict::Undetermined {
        obs.nontrivial_str(&format!("{}|{}", c.ty, c.content));
    } else {
        obs.excluded("undetermined-verdict");
    }
    obs.sample(&format!("{}:{:?}", c.origin.split(':').next().unwrap_or(""), verdict), || json!({"field": c.ty, "content": c.content, "origin": c.origin, "accepted": res.is_ok()}));
    let reason = if verdict == Verdict::MustReject {
        spec_of(&c.ty).g.reject_reason(&c.content)
    } else if c.content.contains('\r') {
        "crlf".to_string()
    } else {
        "in-format".to_string()
    };
    match (&res, verdict) {
        (Err(e), Verdict::MustAccept) => {
            if !e.is_panic() {
                out.push(viol(
                    format!("C05|{}|under-accept|{}", c.ty, reason),
                    format!(
                        "documented-valid content {:?} rejected: {}",
                        c.content,
                        e.text()
                    ),
                ));
            }
        }
        (Ok(_), Verdict::MustReject) => {
            // fine-grained reasons (which documented part the content departs from) are judged in the
            // deterministic grid only; the seeded sub-checks judge the cross-cutting classes
            let cross_cutting = [
                "nonascii",
                "control-char",
                "stray-cr",
                "blank-line",
                "empty",
            ]
            .contains(&reason.as_str());
            if !judge_undetermined && !cross_cutting {
                obs.excluded("over-accept with a part-level reason (judged in the grid sub-check)");
            } else {
                out.push(viol(
                    format!("C05|{}|over-accept|{}", c.ty, reason),
                    format!(
                        "content {:?} is outside the documented format ({}) but was accepted",
                        c.content, reason
                    ),
                ));
            }
        }
        _ => {}
    }
    if let Ok(v) = &res {
        obs.class("accepted");
        // whatever reading the parser chose, a repeated component may not come out with zero elements:
        // every k*Nx part of a documented format has at least one line (absent optional parts are null)
        // documented value ranges of numeric sub-components hold whatever the reading: field 23 "Days (1-99)"
        if c.ty == "Field23" {
            if let Some(d) = v.json.get("days").and_then(|d| d.as_u64()) {
                if d == 0 || d > 99 {
                    out.push(viol(
                        "C05|Field23|component-out-of-range|days".to_string(),
                        format!("content {:?} accepted with days = {d} (documented: 1-99)", c.content),
                    ));
                }
            }
        }
        if !c.content.is_empty() {
            if let Some(key) = empty_component(&v.json, "") {
                out.push(viol(
                    format!("C05|{}|empty-component|{}", c.ty, key),
                    format!(
                        "content {:?} accepted with an empty component {}: {}",
                        c.content, key, v.json
                    ),
                ));
            }
        }
        if verdict == Verdict::MustAccept
            || (judge_undetermined && verdict == Verdict::Undetermined)
        {
            // (for MustReject inputs the acceptance itself is the violation, reported above)
            if crate::refs::has_long_number(&c.content) {
                obs.excluded("amount-beyond-f64-precision (C06 reports it)");
            } else if let Err(d) = faithful(&c.content, v) {
                let why = if verdict == Verdict::MustAccept {
                    reason.clone()
                } else {
                    "undetermined-input".to_string()
                };
                // what was lost: letters of the input missing from the output is loss of data; only
                // delimiters / digits differing is a matter of spelling
                let loss = match split_swift(&v.swift) {
                    Some((_, o)) => loss_class(&c.content, &o),
                    None => "no-tag",
                };
                out.push(viol(
                    format!("C05|{}|unfaithful|{}|{}", c.ty, why, loss),
                    d,
                ));
            }
        }
        if c.origin == "valid"
            && verdict == Verdict::MustAccept
            && !crate::refs::has_long_number(&c.content)
        {
            if let Err(d) = components_exposed(&c.comps, &v.json) {
                out.push(viol(format!("C05|{}|component-mismatch|valid", c.ty), d));
            }
        }
    }
    out
}

/// path of the first empty array inside a field value's JSON
fn empty_component(v: &Value, cur: &str) -> Option<String> {
    match v {
        Value::Array(a) if a.is_empty() => Some(cur.to_string()),
        Value::Array(a) => a.iter().find_map(|x| empty_component(x, cur)),
        Value::Object(o) => o.iter().find_map(|(k, x)| {
            let key = if k.chars().next().map(|c| c.is_ascii_digit()).unwrap_or(false) {
                cur.to_string() // option-enum wrapper key such as "52D"
            } else {
                k.clone()
            };
            empty_component(x, &key)
        }),
        _ => None,
    }
}

/// letters of `input` that `output` no longer has (as a multiset), or has in addition
pub fn loss_class(input: &str, output: &str) -> &'static str {
    let count = |s: &str| {
        let mut m = std::collections::BTreeMap::new();
        for c in s.chars().filter(|c| c.is_ascii_alphabetic()) {
            *m.entry(c).or_insert(0i32) += 1;
        }
        m
    };
    let (a, b) = (count(input), count(output));
    let lost = a.iter().any(|(c, n)| b.get(c).copied().unwrap_or(0) < *n);
    let added = b.iter().any(|(c, n)| a.get(c).copied().unwrap_or(0) < *n);
    match (lost, added) {
        (true, _) => "letters-lost",
        (false, true) => "letters-added",
        _ => "letters-kept",
    }
}

fn concrete() -> Vec<&'static str> {
    specs().iter().map(|s| s.ty).collect()
}

pub fn run(ctx: &Ctx) {
    ctx.add_rule("per concrete field type (89): contents generated from the documented format grammar (strict reading), near-miss mutations of them (length, class, lines, trailing data, dates, amounts, BIC, CRLF) and random strings over 5 alphabets; verdict from the independent two-sided acceptor; non-trivial = verdict is MustAccept or MustReject, distinct by (field, content)");
    ctx.assume("field format table harness/src/spec.rs transcribed from the **Format:** doc lines of /repo/src/fields; strict = SWIFT character classes, permissive = widest documented reading; anything between is Undetermined and not judged");
    ctx.assume("faithfulness: to_swift_string content equals the input up to numeric formatting and line endings (refs::approx_eq)");
    let tys = concrete();
    let to_json = |c: &FieldCase| serde_json::to_value(c).unwrap();
    // deterministic grid (independent of VERIF_SEED): K fixed base contents per field x every part x every mutation class
    let k = ctx.n(12, 60) as u64;
    ctx.exhaustive("near-miss grid: per field type, K fixed valid base contents of distinct shape (optional parts present, number of lines) x every part x {lengthen 1/2/20, shorten, 16 substitutions at first/middle/last position, bad dates, bad amounts, bad BICs} + trailing data, extra/leading/blank lines, CRLF, empty, every single-character deletion");
    ctx.run_enumerated(
        "grid",
        tys.len(),
        &|sh| {
            let ty = tys[sh];
            let mut v = Vec::new();
            // K base contents of distinct shape (which optional parts are present, how many lines) out
            // of 24 x K candidates from fixed seeds; remaining places are filled in candidate order
            let mut bases: Vec<crate::spec::GenOut> = Vec::new();
            let mut rest: Vec<crate::spec::GenOut> = Vec::new();
            let mut shapes = std::collections::BTreeSet::new();
            for j in 0..k * 24 {
                let data: Vec<u32> = (0..256)
                    .map(|i| {
                        crate::choice::splitmix(0xC05 ^ ((sh as u64) << 20) ^ (j << 10) ^ i) as u32
                    })
                    .collect();
                let mut src = Src::new(&data);
                let out = spec_of(ty).g.generate(&mut src);
                let shape = format!(
                    "{}|{}",
                    out.spans.iter().map(|s| s.2.as_str()).collect::<Vec<_>>().join(","),
                    out.text.matches('\n').count()
                );
                if shapes.insert(shape) {
                    bases.push(out);
                } else if rest.len() < k as usize {
                    rest.push(out);
                }
                if bases.len() >= k as usize {
                    break;
                }
            }
            while bases.len() < k as usize && !rest.is_empty() {
                bases.push(rest.remove(0));
            }
            for out in bases {
                v.push(FieldCase {
                    ty: ty.to_string(),
                    content: out.text.clone(),
                    origin: "valid".into(),
                    comps: out.comps.clone(),
                });
                v.extend(all_mutations(ty, &out));
            }
            v
        },
        &|c: &FieldCase, obs: &mut Obs| oracle_with(c, obs, true),
        &to_json,
    );
    ctx.run_generated(
        "valid",
        tys.len(),
        ctx.n(1500, 30000),
        256,
        &|sh, src: &mut Src| gen_valid(tys[sh], src),
        &oracle,
        &to_json,
    );
    ctx.run_generated(
        "nearmiss",
        tys.len(),
        ctx.n(4000, 100000),
        256,
        &|sh, src: &mut Src| mutate(tys[sh], src),
        &oracle,
        &to_json,
    );
    ctx.run_generated(
        "random",
        tys.len(),
        ctx.n(2500, 50000),
        64,
        &|sh, src: &mut Src| random_content(tys[sh], src),
        &oracle,
        &to_json,
    );
}

pub fn replay(_ctx: &Ctx, _sub: &str, case: &Value) -> Vec<Violation> {
    let c: FieldCase = serde_json::from_value(case.clone()).expect("replay case");
    let mut obs = Obs::default();
    oracle_with(&c, &mut obs, true)
}
