//! C05 — field parsers accept exactly their documented format.
use crate::choice::Src;
use crate::driver::{Ctx, Obs, Violation, viol};
use crate::fieldkit::*;
use crate::spec::Verdict;
use serde_json::{Value, json};

pub fn oracle(c: &FieldCase, obs: &mut Obs) -> Vec<Violation> {
    let mut out = Vec::new();
    let verdict = verdict_of(c);
    let res = parse_case(c);
    obs.class(&format!("verdict:{:?}", verdict));
    if verdict != Verdict::Undetermined {
        obs.nontrivial_str(&format!("{}|{}", c.ty, c.content));
    } else {
        obs.excluded("undetermined-verdict");
    }
    obs.sample(&format!("{}:{:?}", c.origin.split(':').next().unwrap_or(""), verdict), || json!({"field": c.ty, "content": c.content, "origin": c.origin, "accepted": res.is_ok()}));
    let reason = if verdict == Verdict::MustReject { spec_of(&c.ty).g.reject_reason(&c.content) } else if c.content.contains('\r') { "crlf".to_string() } else { "in-format".to_string() };
    match (&res, verdict) {
        (Err(e), Verdict::MustAccept) => {
            if !e.is_panic() {
                out.push(viol(format!("C05|{}|under-accept|{}", c.ty, reason), format!("documented-valid content {:?} rejected: {}", c.content, e.text())));
            }
        }
        (Ok(_), Verdict::MustReject) => {
            out.push(viol(format!("C05|{}|over-accept|{}", c.ty, reason), format!("content {:?} is outside the documented format ({}) but was accepted", c.content, reason)));
        }
        _ => {}
    }
    if let Ok(v) = &res {
        obs.class("accepted");
        if verdict != Verdict::MustReject {
            // (for MustReject inputs the acceptance itself is the violation, reported above)
            if let Err(d) = faithful(&c.content, v) {
                let why = if crate::refs::has_long_number(&c.content) { "16digits".to_string() } else if verdict == Verdict::MustAccept { reason.clone() } else { "undetermined-input".to_string() };
                out.push(viol(format!("C05|{}|unfaithful|{}", c.ty, why), d));
            }
        }
        if c.origin == "valid" && verdict == Verdict::MustAccept {
            if let Err(d) = components_exposed(&c.comps, &v.json) {
                out.push(viol(format!("C05|{}|component-mismatch|valid", c.ty), d));
            }
        }
    }
    out
}

fn concrete() -> Vec<&'static str> {
    specs().iter().map(|s| s.ty).collect()
}

pub fn run(ctx: &Ctx) {
    ctx.add_rule("per concrete field type (89): contents generated from the documented format grammar (strict reading), near-miss mutations of them (length, class, lines, trailing data, dates, amounts, BIC, CRLF) and random strings over 5 alphabets; verdict from the independent two-sided acceptor; non-trivial = verdict is MustAccept or MustReject, distinct by (field, content)");
    ctx.assume("field format table harness/src/spec.rs transcribed from the **Format:** doc lines of /repo/src/fields; strict = SWIFT character classes, permissive = widest documented reading; anything between is Undetermined and not judged");
    ctx.assume("faithfulness: to_swift_string content equals the input up to numeric formatting and line endings (refs::approx_eq)");
    let tys = concrete();
    let to_json = |c: &FieldCase| serde_json::to_value(c).unwrap();
    ctx.run_generated("valid", tys.len(), ctx.n(600, 15000), 256, &|sh, src: &mut Src| gen_valid(tys[sh], src), &oracle, &to_json);
    ctx.run_generated("nearmiss", tys.len(), ctx.n(2500, 60000), 256, &|sh, src: &mut Src| mutate(tys[sh], src), &oracle, &to_json);
    ctx.run_generated("random", tys.len(), ctx.n(1200, 30000), 64, &|sh, src: &mut Src| random_content(tys[sh], src), &oracle, &to_json);
}

pub fn replay(_ctx: &Ctx, _sub: &str, case: &Value) -> Vec<Violation> {
    let c: FieldCase = serde_json::from_value(case.clone()).expect("replay case");
    let mut obs = Obs::default();
    oracle(&c, &mut obs)
}
