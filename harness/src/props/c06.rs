//! C06 — monetary amounts and rates are accepted only as decimals and preserved exactly.
use crate::driver::{Ctx, Obs, Violation, viol};
use crate::fieldkit::{leaves, split_swift};
use crate::lib_api::field_ops;
use crate::refs::{self, DecStr};
use serde::{Deserialize, Serialize};
use serde_json::{Value, json};

/// (field type, prefix with `{ccy}` placeholder, suffix, max length of the `Nd` component, carries currency)
pub const AMOUNT_FIELDS: &[(&str, &str, &str, usize, bool)] = &[
    ("Field19", "", "", 17, false),
    ("Field32A", "240101{ccy}", "", 15, true),
    ("Field32B", "{ccy}", "", 15, true),
    ("Field32C", "240101{ccy}", "", 15, true),
    ("Field32D", "240101{ccy}", "", 15, true),
    ("Field33B", "{ccy}", "", 15, true),
    ("Field34F", "{ccy}D", "", 15, true),
    ("Field36", "", "", 12, false),
    ("Field37H", "C", "", 12, false),
    ("Field60F", "C240101{ccy}", "", 15, true),
    ("Field60M", "C240101{ccy}", "", 15, true),
    ("Field61", "240101C", "NTRFREF", 15, false),
    ("Field62F", "D240101{ccy}", "", 15, true),
    ("Field62M", "D240101{ccy}", "", 15, true),
    ("Field64", "C240101{ccy}", "", 15, true),
    ("Field65", "C240101{ccy}", "", 15, true),
    ("Field71F", "{ccy}", "", 15, true),
    ("Field71G", "{ccy}", "", 15, true),
    ("Field90C", "12{ccy}", "", 15, true),
    ("Field90D", "12{ccy}", "", 15, true),
];

#[derive(Clone, Debug, Serialize, Deserialize)]
pub struct AmtCase {
    pub field: String,
    pub prefix: String,
    pub ccy: String,
    pub amount: String,
    pub suffix: String,
    pub max_len: usize,
    pub with_ccy: bool,
    /// spelling class
    pub spelling: String,
}

impl AmtCase {
    pub fn content(&self) -> String {
        format!(
            "{}{}{}",
            self.prefix.replace("{ccy}", &self.ccy),
            self.amount,
            self.suffix
        )
    }
}

const NON_DECIMAL: &[(&str, &str)] = &[
    ("nan", "NaN"),
    ("nan-lower", "nan"),
    ("inf", "inf"),
    ("neg-inf", "-inf"),
    ("infinity", "infinity"),
    ("exp", "1e3"),
    ("exp-neg", "1E-2"),
    ("plus", "+5"),
    ("minus", "-5"),
    ("two-commas", "1,2,3"),
    ("lead-space", " 5"),
    ("trail-space", "5 "),
    ("hex", "0x1"),
    ("arabic", "٣,٥"),
    ("fullwidth", "５,０"),
    ("only-comma", ","),
    ("dot-and-comma", "1.000,5"),
    ("underscore", "1_000"),
    ("neg-zero", "-0,"),
    ("plus-comma", "+1,00"),
    ("exp-comma", "1,0e2"),
];

fn ccy_class(ccy: &str, with: bool) -> String {
    if !with {
        return "no-ccy".into();
    }
    match refs::minor_units(ccy) {
        Some(d) => format!("{d}dec"),
        None => "unknown-ccy".into(),
    }
}

fn digits_of(n: usize, seed: usize) -> String {
    // deterministic digit strings with a non-zero lead and non-zero tail
    (0..n)
        .map(|i| char::from(b'0' + (((seed * 7 + i * 3) % 9) + 1) as u8))
        .collect()
}

pub fn enumerate(field_idx: usize, thorough: bool) -> Vec<AmtCase> {
    let (f, p, s, ml, wc) = AMOUNT_FIELDS[field_idx];
    let mut ccys: Vec<&str> = Vec::new();
    if wc {
        for dec in [0u8, 2, 3, 4] {
            let group: Vec<&str> = refs::CURRENCIES
                .iter()
                .filter(|(_, d)| *d == dec)
                .map(|(c, _)| *c)
                .collect();
            let take = if thorough {
                group.len()
            } else {
                group.len().min(if dec == 2 { 6 } else { 4 })
            };
            ccys.extend(group.into_iter().take(take));
        }
    } else {
        ccys.push("");
    }
    // every ISO-4217 code at least once in both tiers: the currencies outside the quick selection get a
    // reduced sweep (all decimal counts, one magnitude) in two representative fields
    let sweep: Vec<&str> = if wc && !thorough && (f == "Field32B" || f == "Field62F") {
        refs::CURRENCIES
            .iter()
            .map(|(c, _)| *c)
            .filter(|c| !ccys.contains(c))
            .collect()
    } else {
        Vec::new()
    };
    let mut out = Vec::new();
    let mk = |ccy: &str, amount: String, spelling: &str| AmtCase {
        field: f.to_string(),
        prefix: p.to_string(),
        ccy: ccy.to_string(),
        amount,
        suffix: s.to_string(),
        max_len: ml,
        with_ccy: wc,
        spelling: spelling.to_string(),
    };
    for ccy in &sweep {
        for nd in 0..=5usize {
            let int = digits_of(3, nd + 3);
            let frac = digits_of(nd, 3);
            out.push(mk(ccy, format!("{int},{frac}"), "currency-sweep"));
        }
    }
    for ccy in &ccys {
        for nd in 0..=5usize {
            for ni in [1usize, 2, 7, 10, 12, 13, 14, 15] {
                let int = digits_of(ni, nd + ni);
                let frac = digits_of(nd, ni);
                out.push(mk(ccy, format!("{int},{frac}"), "comma"));
                if nd > 0 {
                    out.push(mk(ccy, format!("{int}.{frac}"), "dot"));
                    out.push(mk(ccy, format!(",{frac}"), "no-integer-part"));
                    out.push(mk(ccy, format!("{int},{frac}0"), "trailing-zero"));
                } else {
                    out.push(mk(ccy, int.clone(), "no-separator"));
                }
                out.push(mk(ccy, format!("00{int},{frac}"), "leading-zeros"));
                if nd >= 2 && (ni == 1 || ni == 7) {
                    // a fraction that starts with zeros: 1,005 has three decimals, not one
                    let z = "0".repeat(nd - 1);
                    out.push(mk(ccy, format!("{int},{z}5"), "fraction-leading-zeros"));
                }
            }
        }
        // length boundary: total length (digits + separator) at max-1, max, max+1, max+2 with few
        // integer digits, so that the value stays inside any plausibility range of the field
        if !wc {
            for ni in [1usize, 2, 3, 5, 6] {
                for l in [ml - 1, ml, ml + 1, ml + 2] {
                    if l < ni + 1 {
                        continue;
                    }
                    let nf = l - ni - 1;
                    let int = digits_of(ni, l);
                    let frac = digits_of(nf, ni + 1);
                    let d = l as isize - ml as isize;
                    out.push(mk(ccy, format!("{int},{frac}"), &format!("length-max{d:+}")));
                    // the same length reached with leading zeros
                    if ni > 1 {
                        let z = "0".repeat(ni - 1);
                        out.push(mk(
                            ccy,
                            format!("{z}{},{frac}", digits_of(1, l)),
                            &format!("length-max{d:+}-leading-zeros"),
                        ));
                    }
                }
            }
        }
        for (name, a) in NON_DECIMAL {
            out.push(mk(ccy, a.to_string(), name));
        }
        out.push(mk(ccy, "0,".into(), "zero"));
        out.push(mk(ccy, "".into(), "empty"));
    }
    out
}

fn json_amount(json: &Value) -> Option<Value> {
    // the amount/rate leaf: the only non-integer-count number, by key name
    fn find(v: &Value) -> Option<Value> {
        match v {
            Value::Object(o) => {
                for k in ["amount", "rate"] {
                    if let Some(x) = o.get(k) {
                        return Some(x.clone());
                    }
                }
                o.values().find_map(find)
            }
            Value::Array(a) => a.iter().find_map(find),
            _ => None,
        }
    }
    find(json)
}

pub fn oracle(c: &AmtCase, obs: &mut Obs) -> Vec<Violation> {
    let mut out = Vec::new();
    let content = c.content();
    let ops = field_ops(&c.field);
    let res = (ops.parse)(&content);
    let f = &c.field;
    let cc = ccy_class(&c.ccy, c.with_ccy);
    obs.nontrivial_str(&format!("{f}|{content}"));
    obs.class(&format!("spelling:{}", c.spelling));
    obs.sample(
        &format!(
            "{}:{}",
            c.spelling,
            if res.is_ok() { "accepted" } else { "rejected" }
        ),
        || json!({"field": f, "content": content}),
    );
    let dec = DecStr::parse(&c.amount);
    let plain = dec.is_some()
        && c.amount
            .chars()
            .all(|ch| ch.is_ascii_digit() || ch == ',' || ch == '.');
    let mu = if c.with_ccy {
        refs::minor_units(&c.ccy)
    } else {
        None
    };
    let sig_digits = dec
        .as_ref()
        .map(|d| d.int.len() + d.frac.len())
        .unwrap_or(0);
    match &res {
        Ok(v) => {
            if !plain {
                // field 61 has no delimiter after the amount: a spelling that starts with a digit is read as
                // a shorter decimal followed by other components, which is not the acceptance of that spelling
                if f == "Field61" && c.amount.starts_with(|ch: char| ch.is_ascii_digit()) {
                    obs.excluded("field61-spelling-starts-with-digit");
                    return out;
                }
                out.push(viol(
                    format!("C06|{f}|non-decimal-accepted|{}", c.spelling),
                    format!("{:?} accepted as {}", content, v.json),
                ));
                return out;
            }
            let d = dec.clone().unwrap();
            if c.amount.len() > c.max_len {
                out.push(viol(
                    format!("C06|{f}|too-long-accepted"),
                    format!(
                        "amount {:?} has {} characters, the format allows {}",
                        c.amount,
                        c.amount.len(),
                        c.max_len
                    ),
                ));
            }
            if let Some(m) = mu {
                if d.significant_decimals() > m as usize {
                    out.push(viol(
                        format!("C06|{f}|precision-exceeded-accepted|{cc}"),
                        format!(
                            "{:?}: {} decimals for {}",
                            content,
                            d.significant_decimals(),
                            c.ccy
                        ),
                    ));
                    return out;
                }
            }
            // value unchanged in MT
            let big =
                sig_digits > 15 || d.int.len() + (mu.unwrap_or(0) as usize).max(d.frac.len()) > 15;
            let suffix = if big { "|16digits" } else { "" };
            match split_swift(&v.swift) {
                Some((_, outc)) => {
                    if !refs::approx_eq(&content, &outc) {
                        out.push(viol(
                            format!("C06|{f}|value-changed-mt|{cc}{suffix}"),
                            format!("{:?} serialised as {:?}", content, outc),
                        ));
                    } else if let Ok(v2) = (ops.parse)(&outc) {
                        if v2.json != v.json {
                            out.push(viol(
                                format!("C06|{f}|reparse-differs|{cc}{suffix}"),
                                format!("{} vs {}", v.json, v2.json),
                            ));
                        }
                    }
                }
                None => {}
            }
            // JSON: a finite number equal to the decimal written
            match json_amount(&v.json) {
                Some(Value::Number(n)) => {
                    let t = n.to_string();
                    let got = DecStr::from_float_text(t.trim_start_matches('-'));
                    if got.as_ref() != Some(&d) && !big {
                        out.push(viol(
                            format!("C06|{f}|json-value-differs|{cc}"),
                            format!("{:?} exposed as JSON number {}", c.amount, t),
                        ));
                    }
                }
                Some(other) => out.push(viol(
                    format!("C06|{f}|json-not-a-number"),
                    format!("{:?} exposed as {}", c.amount, other),
                )),
                None => {}
            }
            match (ops.from_json)(&v.json) {
                Ok(v3) => {
                    if v3.json != v.json || v3.swift != v.swift {
                        out.push(viol(
                            format!("C06|{f}|json-roundtrip-differs|{cc}{suffix}"),
                            format!(
                                "{:?}: {} / {:?} vs {} / {:?}",
                                content, v.json, v.swift, v3.json, v3.swift
                            ),
                        ));
                    }
                }
                Err(e) => {
                    if !e.is_panic() {
                        out.push(viol(
                            format!("C06|{f}|json-rejected"),
                            format!("{} rejected: {}", v.json, e.text()),
                        ));
                    }
                }
            }
            let mut ls = Vec::new();
            leaves(&v.json, &mut ls);
        }
        Err(e) => {
            // every in-format, in-precision decimal must be accepted (strict reading: comma, integer part, within length)
            let strict = plain
                && c.amount.contains(',')
                && !c.amount.starts_with(',')
                && !c.amount.contains('.')
                && c.amount.len() <= c.max_len
                && c.spelling != "zero";
            let precise = match mu {
                Some(m) => DecStr::written_decimals(&c.amount) <= m as usize,
                None => !c.with_ccy,
            };
            let in_range = match f.as_str() {
                "Field36" => crate::spec::G::Amount {
                    max_len: 12,
                    with_ccy: false,
                    kind: crate::spec::AmtKind::Rate36,
                }
                .matches(&c.amount, crate::spec::Mode::Strict),
                _ => true,
            };
            if strict && precise && in_range && !e.is_panic() {
                out.push(viol(
                    format!("C06|{f}|valid-rejected|{cc}|{}", c.spelling),
                    format!("{:?} rejected: {}", content, e.text()),
                ));
            }
        }
    }
    out
}

pub fn run(ctx: &Ctx) {
    ctx.add_rule("enumerated grid: 20 amount/rate-bearing field types x ISO-4217 currencies (quick: 4-6 per minor-unit class 0/2/3/4 in full, every other code in a reduced sweep - all decimal counts, one magnitude - through 32B and 62F; thorough: all in full) x 0..5 decimals x integer digits {1,2,7,10,12,13,14,15} x spellings {comma, dot, no separator, no integer part, trailing zero, leading zeros, fraction starting with zeros}; for the currency-less fields (19, 36, 37H, 61) total lengths max-1 .. max+2 with 1-6 integer digits, with and without leading zeros; plus 21 non-decimal spellings a float parser would take; non-trivial = all; distinct by (field, content)");
    ctx.exhaustive("the grid is enumerated completely");
    ctx.assume("ISO-4217 minor-unit table in harness/src/refs.rs; amounts with more than 15 significant digits are a separate class (an f64 cannot hold them)");
    let thorough = !ctx.quick();
    let to_json = |c: &AmtCase| serde_json::to_value(c).unwrap();
    ctx.run_enumerated(
        "grid",
        AMOUNT_FIELDS.len(),
        &|sh| enumerate(sh, thorough),
        &oracle,
        &to_json,
    );
}

pub fn replay(_ctx: &Ctx, _sub: &str, case: &Value) -> Vec<Violation> {
    let c: AmtCase = serde_json::from_value(case.clone()).expect("replay case");
    oracle(&c, &mut Obs::default())
}
