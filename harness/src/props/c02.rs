//! C02 — MT round trip is stable: re-parsing serialised output gives the same message.
use crate::choice::Src;
use crate::driver::{Ctx, Obs, Violation, viol};
use crate::fieldkit::*;
use crate::lib_api::{FIELDS, MSGS, field_ops, msg_ops};
use crate::msgkit::*;
use crate::refs::tokenize;
use serde::{Deserialize, Serialize};
use serde_json::{Value, json};

/// first tag-like key on the path to the first difference between two JSON values
pub fn diff_tag(a: &Value, b: &Value, cur: &str) -> Option<String> {
    if a == b {
        return None;
    }
    match (a, b) {
        (Value::Object(x), Value::Object(y)) => {
            let mut keys: Vec<&String> = x.keys().chain(y.keys()).collect();
            keys.sort();
            keys.dedup();
            for k in keys {
                let next = if cur.is_empty() || is_tag_key(k) {
                    k.as_str()
                } else {
                    cur
                };
                let r = diff_tag(
                    x.get(k).unwrap_or(&Value::Null),
                    y.get(k).unwrap_or(&Value::Null),
                    next,
                );
                if r.is_some() {
                    return r;
                }
            }
            Some(cur.to_string())
        }
        (Value::Array(x), Value::Array(y)) => {
            for i in 0..x.len().max(y.len()) {
                let r = diff_tag(
                    x.get(i).unwrap_or(&Value::Null),
                    y.get(i).unwrap_or(&Value::Null),
                    cur,
                );
                if r.is_some() {
                    return r;
                }
            }
            Some(cur.to_string())
        }
        _ => Some(cur.to_string()),
    }
}

/// respell the last decimal of a content non-canonically
fn respell(content: &str, src: &mut Src) -> Option<String> {
    let b = content.as_bytes();
    let mut end = b.len();
    while end > 0 && !(b[end - 1].is_ascii_digit() || b[end - 1] == b',') {
        end -= 1;
    }
    let mut st = end;
    while st > 0 && (b[st - 1].is_ascii_digit() || b[st - 1] == b',') {
        st -= 1;
    }
    if st == end || !content[st..end].contains(',') {
        return None;
    }
    let run = &content[st..end];
    let (i, f) = run.split_once(',')?;
    if i.is_empty() {
        return None;
    }
    let new = match src.below(5) {
        0 => format!("{i},{}", f.trim_end_matches('0')),
        1 => format!("{i}.{f}"),
        2 => {
            if f.chars().all(|c| c == '0') {
                i.to_string()
            } else {
                return None;
            }
        }
        3 => format!("0{i},{f}"),
        _ => {
            if f.len() < 2 {
                format!("{i},{f}0")
            } else {
                return None;
            }
        }
    };
    Some(format!("{}{}{}", &content[..st], new, &content[end..]))
}

pub fn gen_msg_case(mt: &str, src: &mut Src) -> MutCase {
    let mut c = mutate_msg(mt, src);
    c.envelope = true;
    if c.mutation == "valid" && src.flip() {
        let n = c.toks.len();
        let i = src.below(n);
        if let Some(r) = respell(&c.toks[i].content, src) {
            c.tag = c.toks[i].tag.clone();
            c.toks[i].content = r;
            c.mutation = "non-canonical-number".into();
        }
    }
    c
}

pub fn msg_oracle(c: &MutCase, obs: &mut Obs) -> Vec<Violation> {
    full_oracle(&c.mt, c.enveloped(), &c.mutation, &format!("msg|MT{}", c.mt), obs)
}

/// generated envelopes (every header form, optional header tags) around a minimal body
pub fn env_oracle(c: &crate::props::c10::EnvCase, obs: &mut Obs) -> Vec<Violation> {
    let label = if c.near_miss.is_empty() {
        format!(
            "b2:{}{}{}{}",
            &c.b2[0..1],
            c.b2.len(),
            if c.b3.is_some() { "+b3" } else { "" },
            if c.b5.is_some() { "+b5" } else { "" }
        )
    } else {
        format!("near-miss:{}", c.near_miss)
    };
    full_oracle(&c.mt, c.text(), &label, "env", obs)
}

fn full_oracle(mt: &str, x: String, mutation: &str, scope: &str, obs: &mut Obs) -> Vec<Violation> {
    let mut out = Vec::new();
    let ops = msg_ops(mt);
    let scope0 = scope.split('|').next().unwrap_or("msg").to_string();
    if crate::refs::has_long_number(&crate::props::c10::block4_of(&x)) {
        obs.excluded("amount-beyond-f64-precision (C06 reports it)");
        return out;
    }
    let m1 = match (ops.parse_full)(&x) {
        Ok(m) => m,
        Err(_) => {
            obs.class(&format!("{scope0}:rejected-input"));
            return out;
        }
    };
    obs.class(&format!("{scope0}:accepted:{mutation}"));
    obs.nontrivial_str(&x);
    obs.sample(
        &format!("{scope0}:{mutation}"),
        || json!({"mt": mt, "mutation": mutation, "text": x}),
    );
    let t1 = m1.mt_message.clone();
    let m2 = match (ops.parse_full)(&t1) {
        Ok(m) => m,
        Err(e) => {
            if !e.is_panic() {
                out.push(viol(
                    format!(
                        "C02|{scope}|reparse-rejected|{}",
                        crate::props::c03::error_tag(&e)
                    ),
                    format!(
                        "serialised output is rejected: {}\ninput:\n{}\noutput:\n{}",
                        e.text(),
                        x,
                        t1
                    ),
                ));
            }
            return out;
        }
    };
    if m2.json != m1.json {
        let tag = diff_tag(&m1.json, &m2.json, "").unwrap_or_default();
        out.push(viol(
            format!("C02|{scope}|value-differs|{tag}"),
            format!(
                "second parse differs at {tag}:\nfirst  {}\nsecond {}",
                m1.json, m2.json
            ),
        ));
    }
    if m2.mt_message != t1 {
        let (_, a) = tokenize(&crate::props::c10::block4_of(&t1));
        let (_, b) = tokenize(&crate::props::c10::block4_of(&m2.mt_message));
        let tag = a
            .iter()
            .zip(b.iter())
            .find(|(p, q)| p != q)
            .map(|(p, _)| p.tag.clone())
            .unwrap_or("-".into());
        out.push(viol(format!("C02|{scope}|text-not-fixed|{tag}"), format!("serialising the second parse does not reproduce the first serialisation at {tag}:\n{}\nvs\n{}", t1, m2.mt_message)));
    }
    out
}

#[derive(Clone, Debug, Serialize, Deserialize)]
pub struct FieldRt {
    /// type whose parser is exercised (concrete or enum)
    pub ty: String,
    /// option letter to pass (enums); None = plain parse
    pub letter: Option<String>,
    pub base: Option<String>,
    pub content: String,
    pub origin: String,
    /// concrete type whose documented format the content was derived from
    pub spec_ty: String,
}

fn letter_of_tag(tag: &str) -> Option<String> {
    if tag.len() > 2 {
        Some(tag[2..].to_string())
    } else {
        None
    }
}

/// deterministic grid: per field type (enums: per member x {its letter, no letter}), K fixed valid
/// base contents and all their systematic near-miss mutations
pub fn field_grid(shard: usize, k: u64) -> Vec<FieldRt> {
    let f = &FIELDS[shard % FIELDS.len()];
    let mut out = Vec::new();
    let members: Vec<(Option<String>, Option<String>, &str)> =
        match FAMILIES.iter().find(|(e, _, _)| *e == f.name) {
            Some((_, base, mem)) => mem
                .iter()
                .flat_map(|(l, conc)| {
                    vec![
                        (Some(l.to_string()), Some(base.to_string()), *conc),
                        (None, Some(base.to_string()), *conc),
                    ]
                })
                .collect(),
            None => vec![(None, None, f.name)],
        };
    for (letter, base, conc) in members {
        for j in 0..k {
            let data: Vec<u32> = (0..256)
                .map(|i| {
                    crate::choice::splitmix(0xC02 ^ ((shard as u64) << 20) ^ (j << 10) ^ i) as u32
                })
                .collect();
            let mut src = Src::new(&data);
            let g = spec_of(conc).g.generate(&mut src);
            out.push(FieldRt {
                ty: f.name.to_string(),
                letter: letter.clone(),
                base: base.clone(),
                content: g.text.clone(),
                origin: "valid".into(),
                spec_ty: conc.to_string(),
            });
            for m in all_mutations(conc, &g) {
                out.push(FieldRt {
                    ty: f.name.to_string(),
                    letter: letter.clone(),
                    base: base.clone(),
                    content: m.content,
                    origin: m.origin,
                    spec_ty: conc.to_string(),
                });
            }
        }
    }
    out
}

pub fn gen_field_case(shard: usize, src: &mut Src) -> FieldRt {
    let f = &FIELDS[shard % FIELDS.len()];
    if let Some((_, base, members)) = FAMILIES.iter().find(|(e, _, _)| *e == f.name) {
        let (letter, conc) = members[src.below(members.len())];
        let c = match src.below(4) {
            0 | 1 => gen_valid(conc, src),
            2 => mutate(conc, src),
            _ => random_content(conc, src),
        };
        let with_letter = src.chance(3, 4);
        FieldRt {
            ty: f.name.to_string(),
            letter: if with_letter {
                Some(letter.to_string())
            } else {
                None
            },
            base: Some(base.to_string()),
            content: c.content,
            origin: c.origin,
            spec_ty: conc.to_string(),
        }
    } else {
        let c = match src.below(4) {
            0 | 1 => gen_valid(f.name, src),
            2 => mutate(f.name, src),
            _ => random_content(f.name, src),
        };
        FieldRt {
            ty: f.name.to_string(),
            letter: None,
            base: None,
            content: c.content,
            origin: c.origin,
            spec_ty: f.name.to_string(),
        }
    }
}

pub fn field_oracle(c: &FieldRt, obs: &mut Obs) -> Vec<Violation> {
    field_oracle_with(c, obs, false)
}

pub fn field_oracle_with(c: &FieldRt, obs: &mut Obs, judge_undetermined: bool) -> Vec<Violation> {
    let mut out = Vec::new();
    let ops = field_ops(&c.ty);
    // contents outside the documented format are C05's domain: their acceptance is the
    // violation there, what happens to them afterwards is not judged here
    if crate::refs::has_long_number(&c.content) {
        obs.excluded("amount-beyond-f64-precision (C06 reports it)");
        return out;
    }
    match spec_of(&c.spec_ty).g.verdict(&c.content) {
        crate::spec::Verdict::MustReject => {
            obs.excluded("field:outside-documented-format");
            return out;
        }
        crate::spec::Verdict::Undetermined if !judge_undetermined => {
            // judged only in the deterministic grid, so that such signatures do not depend on the seed
            obs.excluded("field:undetermined-format (judged in the grid sub-check)");
            return out;
        }
        _ => {}
    }
    let parse = |content: &str, letter: &Option<String>| match letter {
        Some(l) => (ops.parse_variant)(content, Some(l.as_str()), c.base.as_deref()),
        None => (ops.parse)(content),
    };
    let v1 = match parse(&c.content, &c.letter) {
        Ok(v) => v,
        Err(_) => {
            obs.class("field:rejected-input");
            return out;
        }
    };
    obs.class("field:accepted");
    obs.nontrivial_str(&format!("{}|{:?}|{}", c.ty, c.letter, c.content));
    obs.sample(
        &format!("field:{}", c.origin.split(':').next().unwrap_or("")),
        || json!({"field": c.ty, "letter": c.letter, "content": c.content}),
    );
    let (tag, c1) = match split_swift(&v1.swift) {
        Some(x) => x,
        None => {
            out.push(viol(
                format!("C02|field|{}|no-tag-prefix", c.ty),
                format!("to_swift_string {:?}", v1.swift),
            ));
            return out;
        }
    };
    // re-parse with the letter of the emitted tag (enums) or plainly (concrete types)
    let letter2 = if ops.is_enum {
        Some(letter_of_tag(&tag).unwrap_or_default())
    } else {
        None
    };
    let v2 = match parse(&c1, &letter2) {
        Ok(v) => v,
        Err(e) => {
            if !e.is_panic() {
                out.push(viol(
                    format!("C02|field|{}|reparse-rejected", c.ty),
                    format!(
                        "input {:?} serialised as {:?} which is rejected: {}",
                        c.content,
                        v1.swift,
                        e.text()
                    ),
                ));
            }
            return out;
        }
    };
    if v2.json != v1.json {
        out.push(viol(
            format!("C02|field|{}|value-differs", c.ty),
            format!(
                "input {:?}: first parse {} second parse {}",
                c.content, v1.json, v2.json
            ),
        ));
    }
    if v2.swift != v1.swift {
        out.push(viol(
            format!("C02|field|{}|text-not-fixed", c.ty),
            format!("input {:?}: {:?} then {:?}", c.content, v1.swift, v2.swift),
        ));
    }
    out
}

pub fn run(ctx: &Ctx) {
    ctx.add_rule("message level: per type, valid / structurally mutated / numerically non-canonical texts inside a fixed envelope, LF/CRLF, and minimal bodies inside generated envelopes (every block-1/2 form incl. output headers whose two dates differ, block-3/5 tag subsets); field level: per field type (114, enums with and without option letter), valid / near-miss / random contents; non-trivial = accepted by the library; distinct by (type, input); oracle: parse -> serialise -> parse gives an equal value (serde_json of the whole message incl. headers) and the same text byte for byte");
    let to_json = |c: &MutCase| serde_json::to_value(c).unwrap();
    ctx.run_generated(
        "msg",
        MSGS.len(),
        ctx.n(2000, 50000),
        1800,
        &|sh, src: &mut Src| gen_msg_case(mt_of_shard(sh), src),
        &msg_oracle,
        &to_json,
    );
    let to_json_env = |c: &crate::props::c10::EnvCase| serde_json::to_value(c).unwrap();
    ctx.run_generated(
        "env",
        MSGS.len(),
        ctx.n(1500, 30000),
        400,
        &|sh, src: &mut Src| crate::props::c10::gen_env(mt_of_shard(sh), src),
        &env_oracle,
        &to_json_env,
    );
    let to_json2 = |c: &FieldRt| serde_json::to_value(c).unwrap();
    ctx.run_generated(
        "field",
        FIELDS.len(),
        ctx.n(2000, 50000),
        300,
        &gen_field_case,
        &field_oracle,
        &to_json2,
    );
    let k = ctx.n(4, 20) as u64;
    ctx.run_enumerated(
        "field-grid",
        FIELDS.len(),
        &|sh| field_grid(sh, k),
        &|c: &FieldRt, obs: &mut Obs| field_oracle_with(c, obs, true),
        &to_json2,
    );
}

pub fn replay(_ctx: &Ctx, sub: &str, case: &Value) -> Vec<Violation> {
    if sub == "field" || sub == "field-grid" {
        let c: FieldRt = serde_json::from_value(case.clone()).expect("replay case");
        field_oracle_with(&c, &mut Obs::default(), true)
    } else if sub == "env" {
        let c: crate::props::c10::EnvCase =
            serde_json::from_value(case.clone()).expect("replay case");
        env_oracle(&c, &mut Obs::default())
    } else {
        let c: MutCase = serde_json::from_value(case.clone()).expect("replay case");
        msg_oracle(&c, &mut Obs::default())
    }
}
