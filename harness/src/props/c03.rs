//! C03 — every well-formed message of a supported type is accepted and reproduced exactly.
use crate::choice::Src;
use crate::driver::{Ctx, Obs, Violation, viol};
use crate::fieldkit::{components_exposed, faithful, spec_of_tag, split_swift};
use crate::layout::GenMsg;
use crate::lib_api::{LibErr, MSGS, field_ops, msg_ops};
use crate::msgkit::*;
use crate::refs::tokenize;
use serde::{Deserialize, Serialize};
use serde_json::{Value, json};
use swift_mt_message::errors::ParseError;

#[derive(Clone, Debug, Serialize, Deserialize)]
pub struct MsgCase {
    pub msg: GenMsg,
    pub crlf: bool,
    pub wrapper: bool,
    /// indices of fields whose exposed values are not compared (contents injected without a
    /// component list); key and occurrence are still required
    #[serde(default)]
    pub any_value: Vec<usize>,
}

/// Put every field into the library's own canonical spelling (field-level
/// parse -> to_swift_string). Returns Err(tag) when the field's own parser does not
/// handle the content faithfully (C05's business, not C03's).
pub fn canonicalise(m: &mut GenMsg) -> Result<(), String> {
    for f in m.fields.iter_mut() {
        let sp = match spec_of_tag(&f.tag) {
            Some(s) => s,
            None => continue,
        };
        match (field_ops(sp.ty).parse)(&f.content) {
            Ok(v) => {
                if faithful(&f.content, &v).is_err() {
                    // the library spells this value differently (field 25 always writes its slash):
                    // that spelling is adopted when it is a fixed point carrying the same value
                    let canon = split_swift(&v.swift).map(|x| x.1);
                    let stable = canon.as_ref().and_then(|c| {
                        (field_ops(sp.ty).parse)(c).ok().and_then(|v2| {
                            let same_text = split_swift(&v2.swift).map(|x| x.1).as_ref() == Some(c);
                            if same_text && v2.json == v.json {
                                Some(c.clone())
                            } else {
                                None
                            }
                        })
                    });
                    match stable {
                        Some(c) => {
                            f.content = c;
                            continue;
                        }
                        None => return Err(f.tag.clone()),
                    }
                }
                if let Some((_, c)) = split_swift(&v.swift) {
                    f.content = c;
                }
            }
            Err(_) => return Err(f.tag.clone()),
        }
    }
    Ok(())
}

pub fn error_tag(e: &LibErr) -> String {
    match e {
        LibErr::Parse(ParseError::InvalidFieldFormat(b)) => {
            format!("InvalidFieldFormat:{}", b.field_tag)
        }
        LibErr::Parse(ParseError::MissingRequiredField { field_tag, .. }) => {
            format!("MissingRequiredField:{}", field_tag)
        }
        LibErr::Parse(ParseError::InvalidFormat { message }) => {
            // keep only a coarse, line-number-free class of the message
            let m: String = message
                .chars()
                .take_while(|c| !c.is_ascii_digit() && *c != ':')
                .collect();
            format!("InvalidFormat:{}", m.trim())
        }
        LibErr::Parse(_) => "other".into(),
        _ => "other".into(),
    }
}

pub fn generate(mt: &str, src: &mut Src) -> MsgCase {
    let mut msg = gen_valid_msg(mt, src);
    let mut any_value: Vec<usize> = Vec::new();
    // one time in four a multi-option slot gets a content that is valid for the option written and
    // shaped like another option of its family (the value components of that field are then not compared,
    // acceptance and byte-exact reproduction are)
    if src.chance(1, 4) {
        let slots: Vec<usize> = msg
            .fields
            .iter()
            .enumerate()
            .filter(|(_, f)| f.n_options >= 2)
            .map(|(i, _)| i)
            .collect();
        if !slots.is_empty() {
            let i = slots[src.below(slots.len())];
            if let Some(sp) = crate::fieldkit::spec_of_tag(&msg.fields[i].tag) {
                let fits: Vec<&str> = crate::props::c14::AMBIGUOUS
                    .iter()
                    .copied()
                    .filter(|c| sp.g.verdict(c) == crate::spec::Verdict::MustAccept)
                    .collect();
                if !fits.is_empty() {
                    msg.fields[i].content = fits[src.below(fits.len())].to_string();
                    msg.fields[i].comps = Vec::new();
                    any_value.push(i);
                }
            }
        }
    }
    let crlf = src.chance(1, 3);
    let wrapper = src.flip();
    MsgCase {
        msg,
        crlf,
        wrapper,
        any_value,
    }
}

pub fn oracle(c: &MsgCase, obs: &mut Obs) -> Vec<Violation> {
    let mut out = Vec::new();
    let mt = c.msg.mt.clone();
    let mut msg = c.msg.clone();
    if let Err(tag) = canonicalise(&mut msg) {
        // the field's own parse / serialise pair does not reproduce this documented-format content: the
        // message cannot be reproduced byte for byte either. Reported once per tag (the field-level
        // analysis is C05's); the rest of the message is not judged.
        obs.excluded(&format!("field-level-defect:{tag}"));
        let content = c
            .msg
            .fields
            .iter()
            .find(|f| f.tag == tag)
            .map(|f| f.content.clone())
            .unwrap_or_default();
        out.push(viol(
            format!("C03|field-not-reproduced|{tag}"),
            format!(
                "field {tag} with the documented-format content {:?} is rejected or re-emitted differently by its own parser / serialiser",
                content
            ),
        ));
        return out;
    }
    let text = msg.text(c.crlf, c.wrapper);
    if crate::refs::has_long_number(&text) {
        obs.excluded("amount-beyond-f64-precision (C06 reports it)");
        return out;
    }
    let nontrivial = msg.fields.iter().any(|f| !f.mandatory)
        || msg.fields.iter().any(|f| f.path.iter().any(|i| *i >= 1))
        || msg.fields.iter().any(|f| f.n_options > 1);
    if nontrivial {
        obs.nontrivial_str(&text);
    }
    obs.class(&format!("mt{}", mt));
    obs.class(if c.crlf { "crlf" } else { "lf" });
    obs.class(
        if msg.fields.iter().any(|f| f.path.iter().any(|i| *i >= 1)) {
            "multi-occurrence"
        } else {
            "single-occurrence"
        },
    );
    obs.sample(&format!("mt{mt}"), || json!({"mt": mt, "text": text}));
    let b = match (msg_ops(&mt).parse_block4)(&text) {
        Ok(b) => b,
        Err(e) => {
            if !e.is_panic() {
                out.push(viol(
                    format!("C03|MT{}|rejected|{}", mt, error_tag(&e)),
                    format!("well-formed message rejected: {}\n{}", e.text(), text),
                ));
            }
            return out;
        }
    };
    // (3) byte-for-byte reproduction (line endings normalised)
    let (_, toks) = tokenize(&b.mt_string);
    let want: Vec<(String, String)> = msg
        .fields
        .iter()
        .map(|f| (f.tag.clone(), f.content.clone()))
        .collect();
    let got: Vec<(String, String)> = toks
        .iter()
        .map(|t| (t.tag.clone(), t.content.clone()))
        .collect();
    if want != got {
        let mut tag = "-".to_string();
        for i in 0..want.len().max(got.len()) {
            if want.get(i) != got.get(i) {
                tag = want
                    .get(i)
                    .map(|x| x.0.clone())
                    .or(got.get(i).map(|x| x.0.clone()))
                    .unwrap_or_default();
                break;
            }
        }
        out.push(viol(
            format!("C03|MT{}|text-differs|{}", mt, tag),
            format!(
                "serialised text differs from the input at {tag}:\ninput:\n{}\noutput:\n{}",
                text, b.mt_string
            ),
        ));
    }
    // (2) the model exposes the written component values, per tag and sequence occurrence
    let mut occ = Vec::new();
    json_occurrences(&b.json, &mut Vec::new(), &mut occ);
    let mut used = vec![false; occ.len()];
    for (fi, f) in msg.fields.iter().enumerate() {
        // candidates: unused occurrences of that tag in that sequence occurrence
        // (an untagged option enum is keyed by the bare field number: `25` for `25P`)
        let cands: Vec<usize> = occ
            .iter()
            .enumerate()
            .filter(|(i, (p, t, _, _))| {
                !used[*i]
                    && *p == f.path
                    && (*t == f.tag || (t.len() == 2 && f.tag.starts_with(t.as_str())))
            })
            .map(|(i, _)| i)
            .collect();
        if cands.is_empty() {
            out.push(viol(format!("C03|MT{}|not-exposed|{}", mt, f.tag), format!("field {} (sequence path {:?}) written but not exposed under that key/occurrence in {}", f.tag, f.path, b.json)));
            continue;
        }
        if c.any_value.contains(&fi) {
            used[cands[0]] = true;
            continue;
        }
        // keys of one tag are not ordered in the JSON object (`34F_credit` sorts before `34F_debit`): any
        // unused occurrence exposing exactly these components will do
        // elements of a JSON array (a repeated field) are taken in order: the first unused one must be
        // this occurrence ("repeated fields appear in input order"); members of their own may match in any order
        let pool: Vec<usize> = if occ[cands[0]].3 {
            vec![cands[0]]
        } else {
            cands.clone()
        };
        match pool
            .iter()
            .find(|i| components_exposed(&f.comps, &occ[**i].2).is_ok())
        {
            Some(i) => used[*i] = true,
            None => {
                used[cands[0]] = true;
                let d = components_exposed(&f.comps, &occ[cands[0]].2).unwrap_err();
                out.push(viol(
                    format!("C03|MT{}|value-mismatch|{}", mt, f.tag),
                    format!("{} ; field content {:?}", d, f.content),
                ));
            }
        }
    }
    for (i, (p, t, v, _)) in occ.iter().enumerate() {
        if !used[i] {
            out.push(viol(
                format!("C03|MT{}|extra|{}", mt, t),
                format!(
                    "model exposes {} at {:?} = {} which was not written",
                    t, p, v
                ),
            ));
        }
    }
    let _ = Value::Null;
    out
}

pub fn run(ctx: &Ctx) {
    ctx.add_rule("per message type (30): messages generated from the independent layout table (harness/src/layout.rs) — optional subsets, option letters, 0..max repetitions with boundary bias, field contents from the field format table with boundary lengths/values (one message in four carries, in a multi-option slot, a content shaped like another option of the family), LF/CRLF, wrapper/test style; non-trivial = has an optional field, a second sequence occurrence or a multi-option slot; distinct by text");
    ctx.assume("layout table transcribed from struct docs / documented parse order of /repo/src/messages and SR2025; where they differ the library's documentation is followed");
    ctx.assume("numeric components are first put into the field's own canonical spelling by that field's parse/to_swift_string; a message containing a field whose own parser / serialiser does not reproduce the content is reported once per tag (field-not-reproduced) and not judged further — the field-level analysis is C05's");
    let to_json = |c: &MsgCase| serde_json::to_value(c).unwrap();
    ctx.run_generated(
        "layout",
        MSGS.len(),
        ctx.n(1500, 40000),
        1500,
        &|sh, src: &mut Src| generate(mt_of_shard(sh), src),
        &oracle,
        &to_json,
    );
}

pub fn replay(_ctx: &Ctx, _sub: &str, case: &Value) -> Vec<Violation> {
    let c: MsgCase = serde_json::from_value(case.clone()).expect("replay case");
    oracle(&c, &mut Obs::default())
}
