//! Message-level helpers shared by C01, C02, C03, C08, C09, C12, C13.

use crate::choice::Src;
use crate::layout::{GenField, GenMsg, GenOpts, gen_message};
use crate::lib_api::MSGS;
use crate::spec::Comp;
use serde_json::Value;

pub fn mt_of_shard(shard: usize) -> &'static str {
    MSGS[shard % MSGS.len()].mt
}

pub fn default_opts() -> GenOpts {
    GenOpts {
        star_max: 3,
        allow_cap: true,
        over_cap: false,
    }
}

/// field contents without a number beyond f64 precision (a message carrying one is only counted as
/// excluded by the message-level checks; C05 / C06 judge such numbers at field level): up to six draws
pub fn short_numbers(_mt: &str, tag: &str, src: &mut Src) -> Option<(String, Vec<Comp>)> {
    let sp = crate::fieldkit::spec_of_tag(tag)?;
    for _ in 0..6 {
        let g = sp.g.generate(src);
        if !crate::refs::has_long_number(&g.text) {
            return Some((g.text, g.comps));
        }
    }
    None
}

pub fn gen_valid_msg(mt: &str, src: &mut Src) -> GenMsg {
    gen_message(mt, src, &default_opts(), Some(&short_numbers))
}

/// Is `k` a field tag key (`20`, `50K`, …)?
pub fn is_tag_key(k: &str) -> bool {
    // `20`, `50K`, and occurrence-suffixed keys such as `34F_1`
    let k = match k.find('_') {
        Some(i) if k[i + 1..].chars().all(|c| c.is_ascii_alphanumeric()) && i + 1 < k.len() => {
            &k[..i]
        }
        _ => k,
    };
    let b = k.as_bytes();
    (b.len() == 2 || (b.len() == 3 && b[2].is_ascii_uppercase()))
        && b[0].is_ascii_digit()
        && b[1].is_ascii_digit()
}

fn tag_of_key(k: &str) -> String {
    match k.find('_') {
        Some(i) => k[..i].to_string(),
        None => k.to_string(),
    }
}

/// `{"60": {"F": {...}}}`: an un-flattened option enum; the tag is key + letter
fn nested_option(k: &str, v: &Value) -> Option<(String, Value)> {
    if k.len() != 2 {
        return None;
    }
    let o = v.as_object()?;
    if o.len() != 1 {
        return None;
    }
    let (lk, lv) = o.iter().next()?;
    if lk.len() == 1 && lk.as_bytes()[0].is_ascii_uppercase() && lv.is_object() {
        Some((format!("{k}{lk}"), lv.clone()))
    } else {
        None
    }
}

/// Occurrences of field values in a message-body JSON, as (sequence path, tag, value),
/// in the order: top level first (sorted by tag, arrays in order), then each `#`
/// element in array order.
/// The fourth element says whether the value is an element of a JSON array (a repeated field: its
/// elements must come in input order) or a member of its own.
pub fn json_occurrences(
    v: &Value,
    path: &mut Vec<usize>,
    out: &mut Vec<(Vec<usize>, String, Value, bool)>,
) {
    if let Value::Object(o) = v {
        for (k, val) in o {
            if is_tag_key(k) {
                let tag = tag_of_key(k);
                match val {
                    Value::Array(a) => {
                        for x in a {
                            if !x.is_null() {
                                out.push((path.clone(), tag.clone(), x.clone(), true));
                            }
                        }
                    }
                    Value::Null => {}
                    other => match nested_option(&tag, other) {
                        Some((t, v)) => out.push((path.clone(), t, v, false)),
                        None => out.push((path.clone(), tag.clone(), other.clone(), false)),
                    },
                }
            }
        }
        for (k, val) in o {
            if !is_tag_key(k) {
                match val {
                    Value::Array(a) => {
                        for (i, x) in a.iter().enumerate() {
                            path.push(i);
                            json_occurrences(x, path, out);
                            path.pop();
                        }
                    }
                    Value::Object(_) => {
                        path.push(0);
                        json_occurrences(val, path, out);
                        path.pop();
                    }
                    _ => {}
                }
            }
        }
    }
}

pub fn comps_of(fields: &[GenField]) -> Vec<Comp> {
    fields.iter().flat_map(|f| f.comps.clone()).collect()
}

// ------------------------------------------------------------------ structural mutations

use crate::layout::known_tags;
use crate::refs::Tok;
use serde::{Deserialize, Serialize};

#[derive(Clone, Debug, Serialize, Deserialize)]
pub struct MutCase {
    pub mt: String,
    pub toks: Vec<Tok>,
    /// mutation class ("valid" = none)
    pub mutation: String,
    /// tag the mutation concerns
    pub tag: String,
    /// true when the mutated content is rejected by the field's own parser
    pub bad_content: bool,
    pub crlf: bool,
    pub wrapper: bool,
    /// parse through SwiftParser::parse::<T> with an envelope instead of parse_from_block4
    pub envelope: bool,
}

impl MutCase {
    pub fn text(&self) -> String {
        let nl = if self.crlf { "\r\n" } else { "\n" };
        let mut s = String::new();
        if self.wrapper {
            s.push_str(nl);
        }
        for t in &self.toks {
            s.push(':');
            s.push_str(&t.tag);
            s.push(':');
            s.push_str(&t.content.replace('\n', nl));
            s.push_str(nl);
        }
        if !self.wrapper {
            s.push('-');
        }
        s
    }
    pub fn enveloped(&self) -> String {
        let nl = if self.crlf { "\r\n" } else { "\n" };
        let mut s = format!(
            "{{1:F01BANKDEFFAXXX0000000000}}{{2:I{}BANKDEFFAXXXN}}{{4:{}",
            self.mt, nl
        );
        for t in &self.toks {
            s.push(':');
            s.push_str(&t.tag);
            s.push(':');
            s.push_str(&t.content.replace('\n', nl));
            s.push_str(nl);
        }
        s.push_str("-}");
        s
    }
}

pub fn toks_of(m: &GenMsg) -> Vec<Tok> {
    m.fields
        .iter()
        .map(|f| Tok {
            tag: f.tag.clone(),
            content: f.content.clone(),
        })
        .collect()
}

const UNKNOWN_TAGS: &[&str] = &[
    "99Z", "14A", "18A", "22C", "29B", "31C", "38J", "40A", "47A", "78", "83A", "95P", "00", "27",
];

/// documented repetition caps of sequences: (mt, cap)
pub const CAPS: &[(&str, usize)] = &[
    ("110", 10),
    ("204", 10),
    ("210", 10),
    ("935", 10),
    ("920", 100),
];

/// content that the field's own parser rejects and that cannot be mistaken for a field start
pub fn bad_content_for(tag: &str, src: &mut Src) -> Option<String> {
    let sp = crate::fieldkit::spec_of_tag(tag)?;
    for _ in 0..6 {
        let c = crate::fieldkit::mutate(sp.ty, src);
        let t = &c.content;
        if t.is_empty()
            || t.contains("\n:")
            || t.contains("\n-")
            || t.starts_with(':')
            || t.contains('\r')
            || !t.is_ascii()
            || t.starts_with('\n')
            || t.ends_with('\n')
            || t.contains("\n\n")
        {
            continue;
        }
        if (crate::lib_api::field_ops(sp.ty).parse)(t).is_err() {
            return Some(t.clone());
        }
    }
    None
}

pub fn mutate_msg(mt: &str, src: &mut Src) -> MutCase {
    let base = gen_valid_msg(mt, src);
    let mut toks = toks_of(&base);
    let crlf = src.chance(1, 4);
    let wrapper = src.flip();
    let envelope = src.chance(1, 4);
    let known = known_tags(mt);
    let mut mutation = String::from("valid");
    let mut tag = String::new();
    let mut bad_content = false;
    let n = toks.len();
    match src.below(12) {
        0 => {} // unmutated
        1 => {
            let cand: Vec<&&str> = UNKNOWN_TAGS
                .iter()
                .filter(|t| !known.iter().any(|k| k == **t))
                .collect();
            let t = cand[src.below(cand.len())].to_string();
            let pos = src.below(n + 1);
            toks.insert(
                pos,
                Tok {
                    tag: t.clone(),
                    content: "HELLO".into(),
                },
            );
            mutation = if pos == n {
                "unknown-tag-at-end".into()
            } else if pos == 0 {
                "unknown-tag-at-start".into()
            } else {
                "unknown-tag-inside".into()
            };
            tag = t;
        }
        2 => {
            // a field of the type, copied to a position where it does not belong
            let i = src.below(n);
            let pos = src.below(n + 1);
            let t = toks[i].clone();
            tag = t.tag.clone();
            toks.insert(pos, t);
            mutation = if pos == i || pos == i + 1 {
                "dup-adjacent".into()
            } else if pos == n {
                "dup-at-end".into()
            } else {
                "dup-distant".into()
            };
        }
        3 => {
            if n >= 2 {
                let i = src.below(n - 1);
                if toks[i].tag != toks[i + 1].tag {
                    toks.swap(i, i + 1);
                    mutation = "swap-adjacent".into();
                    tag = toks[i + 1].tag.clone();
                }
            }
        }
        4 => {
            if n >= 3 {
                let i = src.below(n);
                let t = toks.remove(i);
                let pos = src.below(n);
                tag = t.tag.clone();
                toks.insert(pos, t);
                mutation = "move".into();
            }
        }
        5 => {
            let k = 1 + src.below(3);
            for _ in 0..k {
                let t = match src.below(3) {
                    0 => toks[toks.len() - 1].clone(),
                    1 => toks[src.below(n)].clone(),
                    _ => Tok {
                        tag: UNKNOWN_TAGS[src.below(UNKNOWN_TAGS.len())].to_string(),
                        content: "TRAIL".into(),
                    },
                };
                tag = t.tag.clone();
                toks.push(t);
            }
            mutation = "append-after-last".into();
        }
        6 => {
            // exceed the documented repetition cap by repeating the last sequence occurrence
            if let Some((_, cap)) = CAPS.iter().find(|(m, _)| *m == mt) {
                let last_path: Option<Vec<usize>> = base
                    .fields
                    .iter()
                    .rev()
                    .find(|f| !f.path.is_empty())
                    .map(|f| f.path.clone());
                if let Some(lp) = last_path {
                    let idx: Vec<usize> = base
                        .fields
                        .iter()
                        .enumerate()
                        .filter(|(_, f)| f.path == lp)
                        .map(|(i, _)| i)
                        .collect();
                    let have = lp[0] + 1;
                    let extra = *cap + 1 + src.below(5) - have.min(*cap);
                    let insert_at = idx[idx.len() - 1] + 1;
                    let unit: Vec<Tok> = idx.iter().map(|i| toks[*i].clone()).collect();
                    let mut add = Vec::new();
                    for _ in 0..extra {
                        add.extend(unit.clone());
                    }
                    tag = unit[0].tag.clone();
                    let tail = toks.split_off(insert_at);
                    toks.extend(add);
                    toks.extend(tail);
                    mutation = "over-cap".into();
                }
            }
        }
        7 | 8 => {
            let i = src.below(n);
            if let Some(bad) = bad_content_for(&toks[i].tag, src) {
                toks[i].content = bad;
                tag = toks[i].tag.clone();
                mutation = "bad-content".into();
                bad_content = true;
            }
        }
        9 => {
            let i = src.below(n);
            tag = toks[i].tag.clone();
            toks.remove(i);
            mutation = "delete".into();
        }
        10 => {
            // a field of another message type that this type does not know
            let other = MSGS[src.below(MSGS.len())].mt;
            let ok: Vec<String> = known_tags(other)
                .into_iter()
                .filter(|t| !known.contains(t))
                .collect();
            if !ok.is_empty() {
                let t = ok[src.below(ok.len())].clone();
                if let Some(sp) = crate::fieldkit::spec_of_tag(&t) {
                    let g = sp.g.generate(src);
                    let pos = src.below(n + 1);
                    toks.insert(
                        pos,
                        Tok {
                            tag: t.clone(),
                            content: g.text,
                        },
                    );
                    mutation = "foreign-field".into();
                    tag = t;
                }
            }
        }
        _ => {
            // same tag with another option letter of some family, not allowed in this slot
            let i = src.below(n);
            let base_tag = toks[i].tag[0..2].to_string();
            let letter = src.pick_char("ABCDEFGHJKLMNPRSTZ").to_string();
            let t = format!("{base_tag}{letter}");
            if !known.contains(&t) {
                tag = t.clone();
                toks[i].tag = t;
                mutation = "foreign-option-letter".into();
            }
        }
    }
    MutCase {
        mt: mt.to_string(),
        toks,
        mutation,
        tag,
        bad_content,
        crlf,
        wrapper,
        envelope,
    }
}
