//! Message-level helpers shared by C01, C02, C03, C08, C09, C12, C13.

use crate::choice::Src;
use crate::layout::{GenField, GenMsg, GenOpts, gen_message};
use crate::lib_api::MSGS;
use crate::spec::Comp;
use serde_json::Value;

pub fn mt_of_shard(shard: usize) -> &'static str {
    MSGS[shard % MSGS.len()].mt
}

pub fn default_opts() -> GenOpts {
    GenOpts { star_max: 3, allow_cap: true }
}

pub fn gen_valid_msg(mt: &str, src: &mut Src) -> GenMsg {
    gen_message(mt, src, &default_opts(), None)
}

/// Is `k` a field tag key (`20`, `50K`, …)?
pub fn is_tag_key(k: &str) -> bool {
    let b = k.as_bytes();
    (b.len() == 2 || (b.len() == 3 && b[2].is_ascii_uppercase())) && b[0].is_ascii_digit() && b[1].is_ascii_digit()
}

/// Occurrences of field values in a message-body JSON, as (sequence path, tag, value),
/// in the order: top level first (sorted by tag, arrays in order), then each `#`
/// element in array order.
pub fn json_occurrences(v: &Value, path: &mut Vec<usize>, out: &mut Vec<(Vec<usize>, String, Value)>) {
    if let Value::Object(o) = v {
        for (k, val) in o {
            if is_tag_key(k) {
                match val {
                    Value::Array(a) => {
                        for x in a {
                            if !x.is_null() {
                                out.push((path.clone(), k.clone(), x.clone()));
                            }
                        }
                    }
                    Value::Null => {}
                    other => out.push((path.clone(), k.clone(), other.clone())),
                }
            }
        }
        for (k, val) in o {
            if !is_tag_key(k) {
                match val {
                    Value::Array(a) => {
                        for (i, x) in a.iter().enumerate() {
                            path.push(i);
                            json_occurrences(x, path, out);
                            path.pop();
                        }
                    }
                    Value::Object(_) => {
                        path.push(0);
                        json_occurrences(val, path, out);
                        path.pop();
                    }
                    _ => {}
                }
            }
        }
    }
}

pub fn comps_of(fields: &[GenField]) -> Vec<Comp> {
    fields.iter().flat_map(|f| f.comps.clone()).collect()
}
