//! Field format specification: a small combinator language for the SWIFT field
//! notation used in the library's doc comments (`3!n6!n[4!n][6!n]`, `[/34x]4*35x`, ...),
//! with one generator (strict reading), one matcher (strict / permissive reading,
//! yielding the two-sided verdict MustAccept / MustReject / Undetermined) and the
//! table of the 89 concrete field types.
//!
//! Transcribed from the `**Format:**` doc lines of /repo/src/fields/*.rs and the
//! SWIFT character-class definitions; never calls the code under test.

use crate::choice::Src;
use crate::refs::{self, DecStr};
use serde::{Deserialize, Serialize};

#[derive(Clone, Copy, Debug, PartialEq, Eq)]
pub enum Cls {
    N, // digits
    A, // upper-case letters
    C, // upper-case letters and digits
    X, // SWIFT x
    Z, // SWIFT z
}

pub const X_SPECIAL: &str = "/-?:().,'+ ";
pub const Z_EXTRA: &str = "=!\"%&*<>;{@#_";

impl Cls {
    pub fn strict(self, c: char) -> bool {
        match self {
            Cls::N => c.is_ascii_digit(),
            Cls::A => c.is_ascii_uppercase(),
            Cls::C => c.is_ascii_uppercase() || c.is_ascii_digit(),
            Cls::X => c.is_ascii_alphanumeric() || X_SPECIAL.contains(c),
            Cls::Z => c.is_ascii_alphanumeric() || X_SPECIAL.contains(c) || Z_EXTRA.contains(c),
        }
    }
    /// most permissive documented reading: letters of either case, x/z = printable ASCII
    pub fn permissive(self, c: char) -> bool {
        match self {
            Cls::N => c.is_ascii_digit(),
            Cls::A => c.is_ascii_alphabetic(),
            Cls::C => c.is_ascii_alphanumeric(),
            Cls::X | Cls::Z => (' '..='~').contains(&c),
        }
    }
    fn alphabet(self) -> &'static str {
        match self {
            Cls::N => "0123456789",
            Cls::A => "ABCDEFGHIJKLMNOPQRSTUVWXYZ",
            Cls::C => "ABCDEFGHIJKLMNOPQRSTUVWXYZ0123456789",
            Cls::X => "ABCDEFGHIJKLMNOPQRSTUVWXYZabcdefghijklmnopqrstuvwxyz0123456789/-?:().,'+ ",
            Cls::Z => {
                "ABCDEFGHIJKLMNOPQRSTUVWXYZabcdefghijklmnopqrstuvwxyz0123456789/-?:().,'+ =!\"%&*<>;@#_"
            }
        }
    }
}

/// A component value the generator wrote (the independent expectation for C03/C05/C08).
#[derive(Clone, Debug, PartialEq, Serialize, Deserialize)]
pub enum Comp {
    Text(String),
    /// text that the model may expose with or without one leading '/'
    Slashed(String),
    Num(String),
    Date6(String),
    Time4(String),
    /// flag-like literal (e.g. the `N` of 37H): may be exposed as a boolean
    Flag(String),
    /// numbered line `n/text`: the model may expose `text` or `n/text`
    Numbered(usize, String),
}

#[derive(Clone, Debug)]
pub enum G {
    Lit(&'static str),
    /// run of class characters; `free` = plain text component
    Run {
        cls: Cls,
        min: usize,
        max: usize,
    },
    /// unsigned integer written with min..max digits, exposed as a number
    Uint {
        min: usize,
        max: usize,
    },
    /// closed code list (strict); `perm`: wider documented shape for the permissive reading
    Code {
        strict: Vec<&'static str>,
        perm: Option<Box<G>>,
    },
    Opt(Box<G>),
    Seq(Vec<G>),
    Alt(Vec<G>),
    Nl,
    /// `k*Nx`: min..max lines of 1..width chars
    Lines {
        min: usize,
        max: usize,
        width: usize,
        cls: Cls,
        first_no_slash: bool,
    },
    /// `4*(1!n/33x)` numbered lines
    NumLines {
        min: usize,
        max: usize,
        width: usize,
    },
    Date6,
    Time4,
    Sign,
    Offset4,
    Ccy,
    /// `Nd` amount: up to `max_len` characters including the comma
    Amount {
        max_len: usize,
        with_ccy: bool,
        kind: AmtKind,
    },
    Bic,
    /// `/34x`-style component that the model may expose without the slash: "/" + run
    SlashRun {
        min: usize,
        max: usize,
    },
    /// `[/1!a][/34x]` party identifier line (without the newline)
    PartyId,
    /// constraint wrapper: content must not start/end with '/' nor contain '//'
    NoSlashEdges(Box<G>),
    /// free text up to n chars of class z, may contain newlines (77T)
    Blob {
        max: usize,
    },
    /// literal exposed as a flag (e.g. `N` in 37H)
    Flagged(&'static str),
    /// MMDD entry date of field 61
    Mmdd,
    /// funds code of field 61: one letter
    FundsCode,
    /// reference of field 61: up to max x, no `//` inside, not starting with `/`
    RefNoDslash {
        max: usize,
    },
    /// alternative that exists only in the permissive reading (never generated)
    PermOnly(Box<G>),
    /// two digits 01..99 (days of field 23)
    Days2,
    /// x-run of 1..max chars whose first char is a letter (one component)
    AlphaStartRun {
        max: usize,
    },
    /// `5n/5n` with index <= total (28D)
    IndexTotal,
    /// a sequence that the model exposes as ONE text component (e.g. `1!a3!c` of field 61)
    Join(Vec<G>),
}

#[derive(Clone, Copy, Debug, PartialEq, Eq)]
pub enum AmtKind {
    Any,
    /// documented "positive amount": strict reading requires > 0
    Positive,
    /// field 36: documented range 0.0001 ..= 100000
    Rate36,
}

pub fn lit(s: &'static str) -> G {
    G::Lit(s)
}
pub fn run(cls: Cls, min: usize, max: usize) -> G {
    G::Run { cls, min, max }
}
pub fn fix(cls: Cls, n: usize) -> G {
    G::Run {
        cls,
        min: n,
        max: n,
    }
}
pub fn upto(cls: Cls, n: usize) -> G {
    G::Run {
        cls,
        min: 1,
        max: n,
    }
}
pub fn opt(g: G) -> G {
    G::Opt(Box::new(g))
}
pub fn seq(v: Vec<G>) -> G {
    G::Seq(v)
}
pub fn alt(v: Vec<G>) -> G {
    G::Alt(v)
}
pub fn code(v: &[&'static str]) -> G {
    G::Code {
        strict: v.to_vec(),
        perm: None,
    }
}
pub fn code_or(v: &[&'static str], perm: G) -> G {
    G::Code {
        strict: v.to_vec(),
        perm: Some(Box::new(perm)),
    }
}
pub fn lines(max: usize, width: usize) -> G {
    G::Lines {
        min: 1,
        max,
        width,
        cls: Cls::X,
        first_no_slash: false,
    }
}
pub fn name_lines(max: usize, width: usize) -> G {
    G::Lines {
        min: 1,
        max,
        width,
        cls: Cls::X,
        first_no_slash: true,
    }
}

#[derive(Clone, Copy, PartialEq, Eq, Debug)]
pub enum Mode {
    Strict,
    Permissive,
}

#[derive(Clone, Copy, PartialEq, Eq, Debug, Serialize, Deserialize)]
pub enum Verdict {
    MustAccept,
    MustReject,
    Undetermined,
}

// ------------------------------------------------------------------ generation

pub struct GenOut {
    pub text: String,
    pub comps: Vec<Comp>,
    /// byte spans of the primitive parts written, with a label of the part kind
    pub spans: Vec<(usize, usize, String)>,
}

const CCY_COMMON: &[&str] = &[
    "USD", "EUR", "GBP", "CHF", "JPY", "KWD", "BHD", "CLF", "KRW", "CAD", "AUD", "TND", "UYW",
    "XOF",
];

pub fn gen_bic(src: &mut Src) -> String {
    let mut s = String::new();
    for _ in 0..4 {
        s.push(src.pick_char("ABCDEFGHIJKLMNOPQRSTUVWXYZ"));
    }
    s.push_str(*src.pick(&["DE", "US", "GB", "FR", "JP", "CH", "SG", "AU"]));
    for _ in 0..2 {
        s.push(src.pick_char("ABCDEFGHIJKLMNOPQRSTUVWXYZ23456789"));
    }
    if src.flip() {
        for _ in 0..3 {
            s.push(src.pick_char("ABCDEFGHIJKLMNOPQRSTUVWXYZ0123456789"));
        }
    }
    s
}

/// a calendar date valid in both candidate centuries, as YYMMDD
pub fn gen_date6(src: &mut Src) -> String {
    let yy = match src.below(6) {
        0 => 0,
        1 => 49,
        2 => 50,
        3 => 99,
        4 => 79,
        _ => src.below(100),
    } as i32;
    let m = match src.below(4) {
        0 => 2,
        1 => 12,
        _ => 1 + src.below(12),
    } as u32;
    let maxd = refs::days_in_month(1900 + yy, m).min(refs::days_in_month(2000 + yy, m));
    let d = match src.below(3) {
        0 => maxd,
        1 => 1,
        _ => 1 + src.below(maxd as usize) as u32,
    };
    format!("{:02}{:02}{:02}", yy, m, d)
}

pub fn gen_time4(src: &mut Src) -> String {
    let h = match src.below(4) {
        0 => 0,
        1 => 23,
        _ => src.below(24),
    };
    let m = match src.below(4) {
        0 => 0,
        1 => 59,
        _ => src.below(60),
    };
    format!("{:02}{:02}", h, m)
}

/// amount text valid for `decimals` minor units, at most `max_len` chars, comma included
pub fn gen_amount(src: &mut Src, max_len: usize, decimals: usize) -> String {
    let nd = src.range(0, decimals);
    // mostly at most 15 significant digits (what an f64 holds exactly); 1 in 16 longer
    let long = src.chance(1, 16);
    let max_int = max_len.saturating_sub(1 + nd).clamp(1, 14);
    // (the library formats with the currency's full precision, so that is what has to fit)
    let max_int = if long {
        max_int
    } else {
        max_int.min(15usize.saturating_sub(decimals.max(nd)).max(1))
    };
    let nint = match src.below(6) {
        0 => 1,
        1 => max_int,
        2 => max_int.saturating_sub(1).max(1),
        _ => src.range(1, max_int.min(9)),
    };
    let mut s = String::new();
    for i in 0..nint {
        let c = if i == 0 && nint > 1 {
            src.pick_char("123456789")
        } else {
            src.pick_char("0123456789")
        };
        s.push(c);
    }
    s.push(',');
    for _ in 0..nd {
        s.push(src.pick_char("0123456789"));
    }
    s
}

fn gen_line(src: &mut Src, cls: Cls, min: usize, max: usize, no_slash_start: bool) -> String {
    let n = src.len_biased(min.max(1), max);
    let alpha = cls.alphabet();
    let mut s = String::new();
    for i in 0..n {
        let mut c = src.pick_char(alpha);
        let edge = i == 0 || i == n - 1;
        if edge && c == ' ' {
            c = 'X';
        }
        if i == 0 && (c == ':' || c == '-' || (no_slash_start && c == '/')) {
            c = 'Y';
        }
        // avoid `//` and edge slashes never hurt the strict reading
        if c == '/' && (edge || s.ends_with('/')) && no_slash_start {
            c = 'Z';
        }
        s.push(c);
    }
    s
}

impl G {
    pub fn generate(&self, src: &mut Src) -> GenOut {
        let mut out = GenOut {
            text: String::new(),
            comps: Vec::new(),
            spans: Vec::new(),
        };
        let mut ccy: Option<String> = None;
        self.gen_into(src, &mut out, &mut ccy, false);
        out
    }

    pub fn label(&self) -> Option<String> {
        Some(match self {
            G::Lit(_) | G::Nl | G::Opt(_) | G::Seq(_) | G::Alt(_) | G::NoSlashEdges(_) => {
                return None;
            }
            G::Run { cls, min, max } => format!("Run{:?}{}-{}", cls, min, max),
            G::Uint { max, .. } => format!("Uint{}", max),
            G::Code { .. } => "Code".into(),
            G::Lines { max, width, .. } => format!("Lines{}x{}", max, width),
            G::NumLines { .. } => "NumLines".into(),
            G::Date6 => "Date6".into(),
            G::Time4 => "Time4".into(),
            G::Sign => "Sign".into(),
            G::Offset4 => "Offset4".into(),
            G::Ccy => "Ccy".into(),
            G::Amount { max_len, .. } => format!("Amount{}", max_len),
            G::Bic => "Bic".into(),
            G::SlashRun { .. } => "SlashRun".into(),
            G::PartyId => "PartyId".into(),
            G::Blob { .. } => "Blob".into(),
            G::Flagged(_) => "Flag".into(),
            G::Mmdd => "Mmdd".into(),
            G::FundsCode => "FundsCode".into(),
            G::RefNoDslash { .. } => "Ref".into(),
            G::PermOnly(_) => return None,
            G::Join(_) => "Join".into(),
            G::Days2 => "Days2".into(),
            G::AlphaStartRun { .. } => "AlphaStartRun".into(),
            G::IndexTotal => "IndexTotal".into(),
        })
    }

    fn gen_into(
        &self,
        src: &mut Src,
        out: &mut GenOut,
        ccy: &mut Option<String>,
        slash_safe: bool,
    ) {
        let start = out.text.len();
        self.gen_inner(src, out, ccy, slash_safe);
        if let Some(l) = self.label() {
            if out.text.len() > start {
                out.spans.push((start, out.text.len(), l));
            }
        }
    }

    fn gen_inner(
        &self,
        src: &mut Src,
        out: &mut GenOut,
        ccy: &mut Option<String>,
        slash_safe: bool,
    ) {
        match self {
            G::Lit(s) => out.text.push_str(s),
            G::Run { cls, min, max } => {
                let n = src.len_biased(*min, *max);
                let mut s = String::new();
                for i in 0..n {
                    let mut c = src.pick_char(cls.alphabet());
                    let edge = i == 0 || i + 1 == n;
                    if edge && c == ' ' {
                        c = 'X';
                    }
                    if i == 0 && out.text.ends_with('\n') || out.text.is_empty() {
                        if i == 0 && (c == ':' || c == '-') {
                            c = 'Y';
                        }
                    }
                    if slash_safe && c == '/' && (edge || s.ends_with('/')) {
                        c = 'Z';
                    }
                    s.push(c);
                }
                out.text.push_str(&s);
                if n > 0 {
                    out.comps.push(Comp::Text(s));
                }
            }
            G::Uint { min, max } => {
                let n = src.len_biased(*min, *max);
                let mut s = String::new();
                for _ in 0..n {
                    s.push(src.pick_char("0123456789"));
                }
                out.text.push_str(&s);
                out.comps.push(Comp::Num(s));
            }
            G::Code { strict, .. } => {
                let c = *src.pick(strict);
                out.text.push_str(c);
                out.comps.push(Comp::Text(c.to_string()));
            }
            G::Opt(g) => {
                if src.flip() {
                    g.gen_into(src, out, ccy, slash_safe);
                }
            }
            G::Seq(v) => {
                for g in v {
                    g.gen_into(src, out, ccy, slash_safe);
                }
            }
            G::Alt(v) => {
                let n = v.iter().filter(|g| !matches!(g, G::PermOnly(_))).count();
                let i = src.below(n);
                v[i].gen_into(src, out, ccy, slash_safe);
            }
            G::PermOnly(_) => {}
            G::Join(v) => {
                let start = out.text.len();
                let ncomp = out.comps.len();
                let nspans = out.spans.len();
                for g in v {
                    g.gen_into(src, out, ccy, slash_safe);
                }
                out.comps.truncate(ncomp);
                out.spans.truncate(nspans);
                out.comps.push(Comp::Text(out.text[start..].to_string()));
            }
            G::AlphaStartRun { max } => {
                let mut l = gen_line(src, Cls::X, 1, *max, true);
                let c = src.pick_char("ABCDEFGHIJKLMNOPQRSTUVWXYZ");
                l.replace_range(0..1, &c.to_string());
                out.text.push_str(&l);
                out.comps.push(Comp::Text(l));
            }
            G::Days2 => {
                let d = match src.below(3) {
                    0 => 1,
                    1 => 99,
                    _ => 1 + src.below(99),
                };
                let s = format!("{:02}", d);
                out.text.push_str(&s);
                out.comps.push(Comp::Num(s));
            }
            G::IndexTotal => {
                let total = match src.below(4) {
                    0 => 1,
                    1 => 99999,
                    _ => 1 + src.below(99999),
                };
                let index = match src.below(3) {
                    0 => 1,
                    1 => total,
                    _ => 1 + src.below(total),
                };
                let (a, b) = if src.flip() {
                    (format!("{index}"), format!("{total}"))
                } else {
                    (format!("{:05}", index), format!("{:05}", total))
                };
                out.text.push_str(&format!("{a}/{b}"));
                out.comps.push(Comp::Num(a));
                out.comps.push(Comp::Num(b));
            }
            G::Nl => out.text.push('\n'),
            G::Lines {
                min,
                max,
                width,
                cls,
                first_no_slash,
            } => {
                let n = src.len_biased(*min, *max);
                for i in 0..n {
                    if i > 0 {
                        out.text.push('\n');
                    }
                    let l = gen_line(src, *cls, 1, *width, *first_no_slash);
                    out.text.push_str(&l);
                    out.comps.push(Comp::Text(l));
                }
            }
            G::NumLines { min, max, width } => {
                let n = src.len_biased(*min, *max);
                for i in 0..n {
                    if i > 0 {
                        out.text.push('\n');
                    }
                    let l = gen_line(src, Cls::X, 1, *width, true);
                    out.text.push_str(&format!("{}/{}", i + 1, l));
                    out.comps.push(Comp::Numbered(i + 1, l));
                }
            }
            G::Date6 => {
                let d = gen_date6(src);
                out.text.push_str(&d);
                out.comps.push(Comp::Date6(d));
            }
            G::Time4 => {
                let t = gen_time4(src);
                out.text.push_str(&t);
                out.comps.push(Comp::Time4(t));
            }
            G::Sign => {
                let s = *src.pick(&["+", "-"]);
                out.text.push_str(s);
                out.comps.push(Comp::Text(s.to_string()));
            }
            G::Offset4 => {
                let h = match src.below(3) {
                    0 => 0,
                    1 => 14,
                    _ => src.below(15),
                };
                let m = if h == 14 {
                    0
                } else {
                    *src.pick(&[0usize, 30, 45, 59, 15])
                };
                let s = format!("{:02}{:02}", h, m);
                out.text.push_str(&s);
                out.comps.push(Comp::Text(s));
            }
            G::Ccy => {
                let c = if src.chance(3, 4) {
                    src.pick(CCY_COMMON).to_string()
                } else {
                    src.pick(refs::CURRENCIES).0.to_string()
                };
                out.text.push_str(&c);
                out.comps.push(Comp::Text(c.clone()));
                *ccy = Some(c);
            }
            G::Amount {
                max_len,
                with_ccy,
                kind,
            } => {
                let dec = if *with_ccy {
                    ccy.as_deref().and_then(refs::minor_units).unwrap_or(2) as usize
                } else {
                    *src.pick(&[0usize, 2, 2, 4, 6])
                };
                let mut a = if *kind == AmtKind::Rate36 {
                    // 0.0001 ..= 100000, at most 12 characters
                    let int_digits = src.range(1, 5);
                    gen_amount(src, int_digits + 1 + dec.min(4), dec.min(4))
                } else {
                    gen_amount(src, *max_len, dec)
                };
                if *kind != AmtKind::Any && a.chars().all(|c| c == '0' || c == ',') {
                    a = format!("1{}", &a[1..]);
                }
                out.text.push_str(&a);
                out.comps.push(Comp::Num(a));
            }
            G::Bic => {
                let b = gen_bic(src);
                out.text.push_str(&b);
                out.comps.push(Comp::Text(b));
            }
            G::SlashRun { min, max } => {
                let l = gen_line(src, Cls::X, *min, *max, true).replace('/', "S");
                out.text.push('/');
                out.text.push_str(&l);
                out.comps.push(Comp::Slashed(l));
            }
            G::PartyId => {
                // "/C/acct" | "/acct"
                let with_code = src.flip();
                let mut s = String::from("/");
                if with_code {
                    s.push(*src.pick(&['C', 'D']));
                    s.push('/');
                }
                let l = gen_line(src, Cls::X, 1, if with_code { 32 } else { 34 }, true)
                    .replace('/', "S");
                s.push_str(&l);
                out.text.push_str(&s);
                out.comps.push(Comp::Slashed(s[1..].to_string()));
            }
            G::NoSlashEdges(g) => g.gen_into(src, out, ccy, true),
            G::Flagged(l) => {
                out.text.push_str(l);
                out.comps.push(Comp::Flag(l.to_string()));
            }
            G::Mmdd => {
                let m = 1 + src.below(12) as u32;
                let maxd = refs::days_in_month(2001, m);
                let d = match src.below(3) {
                    0 => 1,
                    1 => maxd,
                    _ => 1 + src.below(maxd as usize) as u32,
                };
                let s = format!("{:02}{:02}", m, d);
                out.text.push_str(&s);
                out.comps.push(Comp::Text(s));
            }
            G::FundsCode => {
                let c = src.pick_char("ABCDEFGHIJKLMNOPQRSTUVWXYZ");
                out.text.push(c);
                out.comps.push(Comp::Text(c.to_string()));
            }
            G::RefNoDslash { max } => {
                let l = gen_line(src, Cls::X, 1, *max, true).replace('/', "Q");
                out.text.push_str(&l);
                out.comps.push(Comp::Text(l));
            }
            G::Blob { max } => {
                let n = src.range(1, (*max).min(200));
                let mut s = String::new();
                for i in 0..n {
                    let mut c = src.pick_char(Cls::Z.alphabet());
                    if (i == 0 || i + 1 == n) && c == ' ' {
                        c = 'X';
                    }
                    if i == 0 && (c == ':' || c == '-') {
                        c = 'Y';
                    }
                    s.push(c);
                }
                out.text.push_str(&s);
                out.comps.push(Comp::Text(s));
            }
        }
    }

    // -------------------------------------------------------------- matching

    pub fn matches(&self, s: &str, mode: Mode) -> bool {
        self.matches_why(s, mode).0
    }

    /// (matched, furthest failure position, label of what failed there)
    pub fn matches_why(&self, s: &str, mode: Mode) -> (bool, usize, String) {
        let cs: Vec<char> = s.chars().collect();
        let mut st = MState {
            ccy: None,
            far_pos: 0,
            far_label: String::new(),
        };
        let ok = self.m(&cs, 0, mode, &mut st, &mut |p, st2| {
            if p == cs.len() {
                true
            } else {
                st2.note(p, "trailing");
                false
            }
        });
        (ok, st.far_pos, st.far_label)
    }

    /// Why a content is outside the documented format (root-cause class for signatures).
    pub fn reject_reason(&self, s: &str) -> String {
        // a foreign character is the reason only when it is the sole defect: the same content with plain
        // letters in its place must be acceptable; otherwise the other defect names the class (an extra
        // line that happens to hold a non-ASCII character is an extra line)
        let foreign = |c: char| !c.is_ascii() || (c.is_ascii_control() && c != '\n' && c != '\r');
        if s.chars().any(foreign) {
            let plain: String = s.chars().map(|c| if foreign(c) { 'A' } else { c }).collect();
            let r = self.reject_reason(&plain);
            if r != "none" {
                return r;
            }
            return if s.chars().any(|c| !c.is_ascii()) {
                "nonascii".into()
            } else {
                "control-char".into()
            };
        }
        let t = s.replace("\r\n", "\n");
        if t.is_empty() {
            return "empty".into();
        }
        if t.contains('\r') {
            return "stray-cr".into();
        }
        if t.starts_with('\n') || t.ends_with('\n') || t.contains("\n\n") {
            return "blank-line".into();
        }
        // a reference that is fine except for a slash at an edge or a double slash: the slash rule
        if let G::NoSlashEdges(inner) = self {
            if (t.starts_with('/') || t.ends_with('/') || t.contains("//"))
                && inner.matches(&t, Mode::Permissive)
            {
                return "slash-rule".into();
            }
        }
        let (ok, pos, label) = self.matches_why(&t, Mode::Permissive);
        if ok {
            "none".into()
        } else if label == "trailing" {
            // what is left over: a further line, or more characters on the same line
            let rest: String = t.chars().skip(pos).take(1).collect();
            if rest == "\n" {
                "at-trailing:extra-line".into()
            } else {
                "at-trailing:overflow".into()
            }
        } else if label.ends_with("too-long") {
            // by how much the line overshoots (1, 2, 3 or more)
            let over = t.chars().skip(pos).take_while(|c| *c != '\n').count();
            let over = match over {
                0 | 1 => "+1",
                2 => "+2",
                _ => "+3-or-more",
            };
            format!("at-{label}:{over}")
        } else if label.ends_with("too-many") {
            // too many lines: with or without a leading identifier line are different situations
            let first = if t == "/" || t.starts_with("/\n") {
                "lone-slash-first"
            } else if t.starts_with('/') {
                "slash-first"
            } else {
                "plain-first"
            };
            format!("at-{label}:{first}")
        } else {
            format!("at-{label}")
        }
    }

    /// Two-sided verdict for a candidate content.
    pub fn verdict(&self, s: &str) -> Verdict {
        if s.chars()
            .any(|c| !c.is_ascii() || (c.is_ascii_control() && c != '\n' && c != '\r'))
        {
            return Verdict::MustReject;
        }
        // a lone CR is a control character like any other
        if s.replace("\r\n", "").contains('\r') {
            return Verdict::MustReject;
        }
        // CRLF inside a content handed directly to a field parser: the message parser hands LF line
        // ends to field parsers, what a field parser should do with CRLF itself is documented nowhere
        if s.contains("\r\n") {
            return Verdict::Undetermined;
        }
        if self.matches(&s, Mode::Strict) {
            Verdict::MustAccept
        } else if !self.matches(&s, Mode::Permissive) {
            Verdict::MustReject
        } else {
            Verdict::Undetermined
        }
    }

    fn m(
        &self,
        cs: &[char],
        pos: usize,
        mode: Mode,
        st: &mut MState,
        k: &mut dyn FnMut(usize, &mut MState) -> bool,
    ) -> bool {
        let r = self.m_inner(cs, pos, mode, st, k);
        if !r {
            match self {
                G::Lit(l) => st.note(pos, &format!("Lit{l}")),
                G::Nl => st.note(pos, "Nl"),
                G::Lines { .. } | G::NumLines { .. } => {}
                _ => {
                    if let Some(l) = self.label() {
                        st.note(pos, &l);
                    }
                }
            }
        }
        r
    }

    fn m_inner(
        &self,
        cs: &[char],
        pos: usize,
        mode: Mode,
        st: &mut MState,
        k: &mut dyn FnMut(usize, &mut MState) -> bool,
    ) -> bool {
        match self {
            G::Lit(l) => {
                let lc: Vec<char> = l.chars().collect();
                if cs.len() >= pos + lc.len() && cs[pos..pos + lc.len()] == lc[..] {
                    k(pos + lc.len(), st)
                } else {
                    false
                }
            }
            G::Run { cls, min, max } => {
                // longest first
                let mut n = 0;
                while n < *max
                    && pos + n < cs.len()
                    && cs[pos + n] != '\n'
                    && ok_char(*cls, cs[pos + n], mode)
                {
                    n += 1;
                }
                loop {
                    if n < *min {
                        return false;
                    }
                    if mode == Mode::Strict && n > 0 && (cs[pos] == ' ' || cs[pos + n - 1] == ' ') {
                        // strict reading: no leading/trailing blank in a component
                    } else if k(pos + n, st) {
                        return true;
                    }
                    if n == 0 {
                        return false;
                    }
                    n -= 1;
                }
            }
            G::Uint { min, max } => G::Run {
                cls: Cls::N,
                min: *min,
                max: *max,
            }
            .m(cs, pos, mode, st, k),
            G::Code { strict, perm } => {
                for c in strict {
                    let lc: Vec<char> = c.chars().collect();
                    if cs.len() >= pos + lc.len()
                        && cs[pos..pos + lc.len()] == lc[..]
                        && k(pos + lc.len(), st)
                    {
                        return true;
                    }
                }
                if mode == Mode::Permissive {
                    if let Some(p) = perm {
                        return p.m(cs, pos, mode, st, k);
                    }
                }
                false
            }
            G::Opt(g) => {
                if g.m(cs, pos, mode, st, k) {
                    return true;
                }
                k(pos, st)
            }
            G::Seq(v) => m_seq(v, 0, cs, pos, mode, st, k),
            G::Alt(v) => {
                for g in v {
                    if g.m(cs, pos, mode, st, k) {
                        return true;
                    }
                }
                false
            }
            G::Nl => {
                if pos < cs.len() && cs[pos] == '\n' {
                    k(pos + 1, st)
                } else {
                    false
                }
            }
            G::Lines {
                min,
                max,
                width,
                cls,
                first_no_slash,
            } => m_lines(
                cs,
                pos,
                mode,
                st,
                k,
                0,
                *min,
                *max,
                *width,
                *cls,
                *first_no_slash,
            ),
            G::NumLines { min, max, width } => {
                m_numlines(cs, pos, mode, st, k, 0, *min, *max, *width)
            }
            G::Date6 => {
                if pos + 6 > cs.len() {
                    return false;
                }
                let s: String = cs[pos..pos + 6].iter().collect();
                let ok = match mode {
                    Mode::Strict => refs::valid6_all_centuries(&s),
                    Mode::Permissive => refs::valid6_some_century(&s),
                };
                if ok { k(pos + 6, st) } else { false }
            }
            G::Time4 => {
                if pos + 4 > cs.len() {
                    return false;
                }
                let s: String = cs[pos..pos + 4].iter().collect();
                if refs::valid_hhmm(&s) {
                    k(pos + 4, st)
                } else {
                    false
                }
            }
            G::Sign => {
                if pos < cs.len() && (cs[pos] == '+' || cs[pos] == '-') {
                    k(pos + 1, st)
                } else {
                    false
                }
            }
            G::Offset4 => {
                if pos + 4 > cs.len() || !cs[pos..pos + 4].iter().all(|c| c.is_ascii_digit()) {
                    return false;
                }
                let s: String = cs[pos..pos + 4].iter().collect();
                let h: u32 = s[0..2].parse().unwrap();
                let mi: u32 = s[2..4].parse().unwrap();
                let ok = match mode {
                    // documented: "up to 14 hours"; strict also wants 14 => minutes 00 .. 59 allowed by doc
                    Mode::Strict => h <= 13 && mi <= 59,
                    Mode::Permissive => h <= 23 && mi <= 59,
                };
                if ok { k(pos + 4, st) } else { false }
            }
            G::Ccy => {
                if pos + 3 > cs.len() {
                    return false;
                }
                let s: String = cs[pos..pos + 3].iter().collect();
                let ok = match mode {
                    Mode::Strict => refs::minor_units(&s).is_some(),
                    Mode::Permissive => s.chars().all(|c| c.is_ascii_alphabetic()),
                };
                if !ok {
                    return false;
                }
                let old = st.ccy.replace(s);
                let r = k(pos + 3, st);
                if !r {
                    st.ccy = old;
                }
                r
            }
            G::PermOnly(g) => {
                if mode == Mode::Permissive {
                    g.m(cs, pos, mode, st, k)
                } else {
                    false
                }
            }
            G::Join(v) => m_seq(v, 0, cs, pos, mode, st, k),
            G::AlphaStartRun { max } => {
                if pos < cs.len() && ok_char(Cls::A, cs[pos], mode) {
                    G::Run {
                        cls: Cls::X,
                        min: 1,
                        max: *max,
                    }
                    .m(cs, pos, mode, st, k)
                } else {
                    false
                }
            }
            G::Days2 => {
                if pos + 2 > cs.len() || !cs[pos].is_ascii_digit() || !cs[pos + 1].is_ascii_digit()
                {
                    return false;
                }
                if mode == Mode::Strict && cs[pos] == '0' && cs[pos + 1] == '0' {
                    return false;
                }
                k(pos + 2, st)
            }
            G::IndexTotal => {
                let start = pos;
                seq(vec![
                    G::Uint { min: 1, max: 5 },
                    lit("/"),
                    G::Uint { min: 1, max: 5 },
                ])
                .m(cs, pos, mode, st, &mut |p, st2| {
                    let t: String = cs[start..p].iter().collect();
                    let mut it = t.split('/');
                    let a: u64 = it.next().unwrap().parse().unwrap_or(0);
                    let b: u64 = it.next().unwrap_or("0").parse().unwrap_or(0);
                    if a > b || (mode == Mode::Strict && a == 0) {
                        return false;
                    }
                    k(p, st2)
                })
            }
            G::Amount {
                max_len,
                with_ccy,
                kind,
            } => {
                let mut n = 0;
                while pos + n < cs.len()
                    && n < *max_len
                    && (cs[pos + n].is_ascii_digit()
                        || cs[pos + n] == ','
                        || (mode == Mode::Permissive && cs[pos + n] == '.'))
                {
                    n += 1;
                }
                loop {
                    if n == 0 {
                        return false;
                    }
                    let s: String = cs[pos..pos + n].iter().collect();
                    if amount_ok(&s, mode, if *with_ccy { st.ccy.as_deref() } else { None })
                        && amount_kind_ok(&s, mode, *kind)
                        && k(pos + n, st)
                    {
                        return true;
                    }
                    n -= 1;
                }
            }
            G::Bic => {
                for n in [11usize, 8] {
                    if pos + n <= cs.len() {
                        let s: String = cs[pos..pos + n].iter().collect();
                        if bic_ok(&s, mode) && k(pos + n, st) {
                            return true;
                        }
                    }
                }
                false
            }
            G::SlashRun { min, max } => {
                if pos < cs.len() && cs[pos] == '/' {
                    let start = pos + 1;
                    G::Run {
                        cls: Cls::X,
                        min: *min,
                        max: *max,
                    }
                    .m(cs, pos + 1, mode, st, &mut |p, st2| {
                        // a further slash inside is only covered by the permissive reading
                        if mode == Mode::Strict && cs[start..p].contains(&'/') {
                            return false;
                        }
                        k(p, st2)
                    })
                } else {
                    false
                }
            }
            G::PartyId => {
                // [/1!a][/34x] on one line: "/a/34x" | "/34x" | "/a" ; permissive: any "/..." up to 37 chars
                if pos >= cs.len() || cs[pos] != '/' {
                    return false;
                }
                let mut n = 1;
                while pos + n < cs.len() && cs[pos + n] != '\n' {
                    n += 1;
                }
                let line: String = cs[pos..pos + n].iter().collect();
                let ok = match mode {
                    Mode::Strict => {
                        let body = &line[1..];
                        let b: Vec<char> = body.chars().collect();
                        let x_ok = |t: &[char]| {
                            !t.is_empty()
                                && t.len() <= 34
                                && t.iter().all(|c| Cls::X.strict(*c) && *c != '/')
                                && t[0] != ' '
                                && t[t.len() - 1] != ' '
                        };
                        if b.len() >= 3 && b[0].is_ascii_uppercase() && b[1] == '/' {
                            x_ok(&b[2..])
                        } else {
                            x_ok(&b)
                        }
                    }
                    Mode::Permissive => {
                        line.len() >= 2
                            && line.len() <= 37
                            && line.chars().all(|c| (' '..='~').contains(&c))
                    }
                };
                if ok { k(pos + n, st) } else { false }
            }
            G::NoSlashEdges(g) => {
                let start = pos;
                g.m(cs, pos, mode, st, &mut |p, st2| {
                    let t: String = cs[start..p].iter().collect();
                    if t.starts_with('/') || t.ends_with('/') || t.contains("//") {
                        return false;
                    }
                    k(p, st2)
                })
            }
            G::Flagged(l) => G::Lit(l).m(cs, pos, mode, st, k),
            G::Mmdd => {
                if pos + 4 > cs.len() || !cs[pos..pos + 4].iter().all(|c| c.is_ascii_digit()) {
                    return false;
                }
                let s: String = cs[pos..pos + 4].iter().collect();
                let mo: u32 = s[0..2].parse().unwrap();
                let d: u32 = s[2..4].parse().unwrap();
                let ok = match mode {
                    Mode::Strict => refs::valid_ymd(2001, mo, d),
                    Mode::Permissive => refs::valid_ymd(2000, mo, d),
                };
                if ok { k(pos + 4, st) } else { false }
            }
            G::FundsCode => {
                if pos < cs.len() && ok_char(Cls::A, cs[pos], mode) {
                    k(pos + 1, st)
                } else {
                    false
                }
            }
            G::RefNoDslash { max } => {
                let start = pos;
                let min = if mode == Mode::Strict { 1 } else { 0 };
                G::Run {
                    cls: Cls::X,
                    min,
                    max: *max,
                }
                .m(cs, pos, mode, st, &mut |p, st2| {
                    let t: String = cs[start..p].iter().collect();
                    if t.contains("//")
                        || (mode == Mode::Strict && (t.starts_with('/') || t.ends_with('/')))
                    {
                        return false;
                    }
                    k(p, st2)
                })
            }
            G::Blob { max } => {
                let n = cs.len() - pos;
                if n == 0 || n > *max {
                    return false;
                }
                let ok = cs[pos..].iter().all(|c| {
                    *c == '\n'
                        || match mode {
                            Mode::Strict => Cls::Z.strict(*c),
                            Mode::Permissive => Cls::Z.permissive(*c),
                        }
                });
                if ok { k(cs.len(), st) } else { false }
            }
        }
    }
}

pub struct MState {
    ccy: Option<String>,
    pub far_pos: usize,
    pub far_label: String,
}

impl MState {
    fn note(&mut self, pos: usize, label: &str) {
        if pos > self.far_pos || self.far_label.is_empty() {
            self.far_pos = pos;
            self.far_label = label.to_string();
        }
    }
}

fn ok_char(cls: Cls, c: char, mode: Mode) -> bool {
    match mode {
        Mode::Strict => cls.strict(c),
        Mode::Permissive => cls.permissive(c),
    }
}

fn m_seq(
    v: &[G],
    i: usize,
    cs: &[char],
    pos: usize,
    mode: Mode,
    st: &mut MState,
    k: &mut dyn FnMut(usize, &mut MState) -> bool,
) -> bool {
    if i == v.len() {
        return k(pos, st);
    }
    v[i].m(cs, pos, mode, st, &mut |p, st2| {
        m_seq(v, i + 1, cs, p, mode, st2, k)
    })
}

#[allow(clippy::too_many_arguments)]
fn m_lines(
    cs: &[char],
    pos: usize,
    mode: Mode,
    st: &mut MState,
    k: &mut dyn FnMut(usize, &mut MState) -> bool,
    done: usize,
    min: usize,
    max: usize,
    width: usize,
    cls: Cls,
    first_no_slash: bool,
) -> bool {
    // match one line at pos
    if done >= max {
        st.note(pos, "Lines-too-many");
        return false;
    }
    let mut n = 0;
    while pos + n < cs.len() && cs[pos + n] != '\n' {
        n += 1;
    }
    if n == 0 {
        st.note(pos, "Lines-empty");
        return false;
    }
    if n > width {
        st.note(pos + width, "Lines-too-long");
        return false;
    }
    let line = &cs[pos..pos + n];
    if !line.iter().all(|c| ok_char(cls, *c, mode)) {
        st.note(pos, "Lines-char");
        return false;
    }
    if mode == Mode::Strict {
        if line[0] == ' ' || line[n - 1] == ' ' || line[0] == ':' || line[0] == '-' {
            return false;
        }
        if first_no_slash && done == 0 && line[0] == '/' {
            return false;
        }
    }
    let end = pos + n;
    let done = done + 1;
    // continue with another line
    if end < cs.len()
        && cs[end] == '\n'
        && m_lines(
            cs,
            end + 1,
            mode,
            st,
            k,
            done,
            min,
            max,
            width,
            cls,
            first_no_slash,
        )
    {
        return true;
    }
    if done >= min { k(end, st) } else { false }
}

#[allow(clippy::too_many_arguments)]
fn m_numlines(
    cs: &[char],
    pos: usize,
    mode: Mode,
    st: &mut MState,
    k: &mut dyn FnMut(usize, &mut MState) -> bool,
    done: usize,
    min: usize,
    max: usize,
    width: usize,
) -> bool {
    if done >= max {
        st.note(pos, "NumLines-too-many");
        return false;
    }
    let mut n = 0;
    while pos + n < cs.len() && cs[pos + n] != '\n' {
        n += 1;
    }
    if n < 3 {
        st.note(pos, "NumLines-short");
        return false;
    }
    if n > width + 2 {
        st.note(pos + width + 2, "NumLines-too-long");
        return false;
    }
    let line = &cs[pos..pos + n];
    if !line[0].is_ascii_digit() || line[1] != '/' {
        st.note(pos, "NumLines-number");
        return false;
    }
    if !line[2..].iter().all(|c| ok_char(Cls::X, *c, mode)) {
        st.note(pos, "NumLines-char");
        return false;
    }
    if mode == Mode::Strict {
        // strict: numbers ascending from the documented 1..; text not blank-edged
        let d = line[0].to_digit(10).unwrap() as usize;
        if d != done + 1 || line[2] == ' ' || line[n - 1] == ' ' {
            return false;
        }
    }
    let end = pos + n;
    let done = done + 1;
    if end < cs.len()
        && cs[end] == '\n'
        && m_numlines(cs, end + 1, mode, st, k, done, min, max, width)
    {
        return true;
    }
    if done >= min { k(end, st) } else { false }
}

pub fn amount_ok(s: &str, mode: Mode, ccy: Option<&str>) -> bool {
    let d = match DecStr::parse(s) {
        Some(d) => d,
        None => return false,
    };
    let sep = s.find([',', '.']);
    match mode {
        Mode::Strict => {
            // SWIFT d: at least one integer digit, mandatory comma
            match sep {
                Some(i) if i >= 1 && s.as_bytes()[i] == b',' => {}
                _ => return false,
            }
            if let Some(c) = ccy {
                match refs::minor_units(c) {
                    Some(mu) => {
                        if DecStr::written_decimals(s) > mu as usize {
                            return false;
                        }
                    }
                    None => return false,
                }
            }
            true
        }
        Mode::Permissive => {
            if let Some(c) = ccy {
                if let Some(mu) = refs::minor_units(c) {
                    // only significant decimals count in the permissive reading
                    if d.significant_decimals() > mu as usize {
                        return false;
                    }
                }
            }
            true
        }
    }
}

fn amount_kind_ok(s: &str, mode: Mode, kind: AmtKind) -> bool {
    if mode == Mode::Permissive || kind == AmtKind::Any {
        return true;
    }
    let d = match DecStr::parse(s) {
        Some(d) => d,
        None => return false,
    };
    let zero = d.int.is_empty() && d.frac.is_empty();
    match kind {
        AmtKind::Any => true,
        AmtKind::Positive => !zero,
        AmtKind::Rate36 => {
            // 0.0001 ..= 100000 decided on the decimal text
            if zero {
                return false;
            }
            if d.int.len() > 6 || (d.int.len() == 6 && !(d.int == "100000" && d.frac.is_empty())) {
                return false;
            }
            if d.int.is_empty() {
                // 0.xxxx >= 0.0001
                let lead_zeros = d.frac.chars().take_while(|c| *c == '0').count();
                if lead_zeros >= 4 {
                    return false;
                }
            }
            true
        }
    }
}

pub fn bic_ok(s: &str, mode: Mode) -> bool {
    let b: Vec<char> = s.chars().collect();
    if b.len() != 8 && b.len() != 11 {
        return false;
    }
    match mode {
        Mode::Strict => {
            b[..6].iter().all(|c| c.is_ascii_uppercase())
                && b[6..]
                    .iter()
                    .all(|c| c.is_ascii_uppercase() || c.is_ascii_digit())
        }
        Mode::Permissive => b.iter().all(|c| c.is_ascii_alphanumeric()),
    }
}

// ------------------------------------------------------------------ the table

pub struct FieldSpec {
    /// Rust type name in the library
    pub ty: &'static str,
    /// tag emitted by to_swift_string
    pub tag: &'static str,
    /// the documented format, as in the doc comment
    pub doc: &'static str,
    pub g: G,
    /// carries an amount / rate (C06)
    pub amount: bool,
    /// carries a date (C11)
    pub date: bool,
}

fn party_then(rest: G) -> G {
    seq(vec![opt(seq(vec![G::PartyId, G::Nl])), rest])
}
fn acct_then(rest: G) -> G {
    seq(vec![
        opt(seq(vec![G::SlashRun { min: 1, max: 34 }, G::Nl])),
        rest,
    ])
}
fn balance() -> G {
    seq(vec![
        code(&["C", "D"]),
        G::Date6,
        G::Ccy,
        G::Amount {
            max_len: 15,
            with_ccy: true,
            kind: AmtKind::Positive,
        },
    ])
}
fn party_b() -> G {
    // [/1!a][/34x] + [35x] : at least one of the two
    alt(vec![
        // (a location that itself begins with a slash is not generated: after a party line it is
        // indistinguishable from a second party line)
        seq(vec![G::PartyId, G::Nl, G::NoLeadSlash35()]),
        G::PartyId,
        G::NoLeadSlash35(),
    ])
}

impl G {
    #[allow(non_snake_case)]
    fn NoLeadSlash35() -> G {
        G::Lines {
            min: 1,
            max: 1,
            width: 35,
            cls: Cls::X,
            first_no_slash: true,
        }
    }
}

pub fn field_specs() -> Vec<FieldSpec> {
    use Cls::*;
    let fs = |ty, tag, doc, g| FieldSpec {
        ty,
        tag,
        doc,
        g,
        amount: false,
        date: false,
    };
    let am = |ty, tag, doc, g| FieldSpec {
        ty,
        tag,
        doc,
        g,
        amount: true,
        date: false,
    };
    let dt = |ty, tag, doc, g| FieldSpec {
        ty,
        tag,
        doc,
        g,
        amount: false,
        date: true,
    };
    let amdt = |ty, tag, doc, g| FieldSpec {
        ty,
        tag,
        doc,
        g,
        amount: true,
        date: true,
    };
    let amt15 = || G::Amount {
        max_len: 15,
        with_ccy: true,
        kind: AmtKind::Positive,
    };
    vec![
        dt(
            "Field11R",
            "11R",
            "3!n6!n[4!n][6!n]",
            seq(vec![
                fix(N, 3),
                G::Date6,
                opt(seq(vec![fix(N, 4), opt(fix(N, 6))])),
            ]),
        ),
        dt(
            "Field11S",
            "11S",
            "3!n6!n[4!n][6!n]",
            seq(vec![
                fix(N, 3),
                G::Date6,
                opt(seq(vec![fix(N, 4), opt(fix(N, 6))])),
            ]),
        ),
        dt("Field11", "11", "3!n6!n", seq(vec![fix(N, 3), G::Date6])),
        fs("Field12", "12", "3!n", fix(N, 3)),
        dt(
            "Field13C",
            "13C",
            "/8c/4!n1!x4!n",
            seq(vec![
                lit("/"),
                code_or(&["SNDTIME", "CLSTIME", "RNCTIME"], upto(C, 8)),
                lit("/"),
                G::Time4,
                G::Sign,
                G::Offset4,
            ]),
        ),
        dt(
            "Field13D",
            "13D",
            "6!n4!n1!x4!n",
            seq(vec![G::Date6, G::Time4, G::Sign, G::Offset4]),
        ),
        am(
            "Field19",
            "19",
            "17d",
            G::Amount {
                max_len: 17,
                with_ccy: false,
                kind: AmtKind::Any,
            },
        ),
        fs(
            "Field20",
            "20",
            "16x",
            G::NoSlashEdges(Box::new(upto(X, 16))),
        ),
        fs(
            "Field21NoOption",
            "21",
            "16x",
            G::NoSlashEdges(Box::new(upto(X, 16))),
        ),
        fs(
            "Field21C",
            "21C",
            "35x",
            G::NoSlashEdges(Box::new(upto(X, 35))),
        ),
        fs(
            "Field21D",
            "21D",
            "35x",
            G::NoSlashEdges(Box::new(upto(X, 35))),
        ),
        fs(
            "Field21E",
            "21E",
            "35x",
            G::NoSlashEdges(Box::new(upto(X, 35))),
        ),
        fs(
            "Field21F",
            "21F",
            "16x",
            G::NoSlashEdges(Box::new(upto(X, 16))),
        ),
        fs(
            "Field21R",
            "21R",
            "16x",
            G::NoSlashEdges(Box::new(upto(X, 16))),
        ),
        fs(
            "Field23",
            "23",
            "3!a[2!n]11x",
            alt(vec![
                seq(vec![code(&["NOT"]), G::Days2, upto(X, 11)]),
                seq(vec![
                    code(&["BAS", "CAL", "COM", "CUR", "DEP", "PRI"]),
                    G::AlphaStartRun { max: 11 },
                ]),
                G::PermOnly(Box::new(seq(vec![fix(A, 3), opt(fix(N, 2)), upto(X, 11)]))),
            ]),
        ),
        fs(
            "Field23B",
            "23B",
            "4!c",
            code_or(&["CRED", "CRTS", "SPAY", "SPRI", "SSTD"], fix(C, 4)),
        ),
        fs(
            "Field23E",
            "23E",
            "4!c[/35x]",
            seq(vec![fix(A, 4), opt(seq(vec![lit("/"), upto(X, 35)]))]),
        ),
        fs("Field25NoOption", "25", "35x", G::NoLeadSlash35()),
        fs("Field25A", "25A", "/34x", G::SlashRun { min: 1, max: 34 }),
        fs(
            "Field25P",
            "25P",
            "35x + 4!a2!a2!c[3!c]",
            seq(vec![upto(X, 35), G::Nl, G::Bic]),
        ),
        fs("Field26T", "26T", "3!c", fix(C, 3)),
        fs(
            "Field28",
            "28",
            "5n[/2n]",
            seq(vec![
                G::Uint { min: 1, max: 5 },
                opt(seq(vec![lit("/"), G::Uint { min: 1, max: 2 }])),
            ]),
        ),
        fs(
            "Field28C",
            "28C",
            "5n[/5n]",
            seq(vec![
                G::Uint { min: 1, max: 5 },
                opt(seq(vec![lit("/"), G::Uint { min: 1, max: 5 }])),
            ]),
        ),
        fs("Field28D", "28D", "5n/5n", G::IndexTotal),
        dt("Field30", "30", "6!n", G::Date6),
        amdt(
            "Field32A",
            "32A",
            "6!n3!a15d",
            seq(vec![G::Date6, G::Ccy, amt15()]),
        ),
        am("Field32B", "32B", "3!a15d", seq(vec![G::Ccy, amt15()])),
        amdt(
            "Field32C",
            "32C",
            "6!n3!a15d",
            seq(vec![G::Date6, G::Ccy, amt15()]),
        ),
        amdt(
            "Field32D",
            "32D",
            "6!n3!a15d",
            seq(vec![G::Date6, G::Ccy, amt15()]),
        ),
        am("Field33B", "33B", "3!a15d", seq(vec![G::Ccy, amt15()])),
        am(
            "Field34F",
            "34F",
            "3!a[1!a]15d",
            seq(vec![
                G::Ccy,
                opt(code(&["D", "C"])),
                G::Amount {
                    max_len: 15,
                    with_ccy: true,
                    kind: AmtKind::Positive,
                },
            ]),
        ),
        am(
            "Field36",
            "36",
            "12d",
            G::Amount {
                max_len: 12,
                with_ccy: false,
                kind: AmtKind::Rate36,
            },
        ),
        am(
            "Field37H",
            "37H",
            "1!a[N]12d",
            seq(vec![
                code(&["C", "D"]),
                opt(G::Flagged("N")),
                G::Amount {
                    max_len: 12,
                    with_ccy: false,
                    kind: AmtKind::Any,
                },
            ]),
        ),
        fs("Field50NoOption", "50", "4*35x", name_lines(4, 35)),
        fs(
            "Field50A",
            "50A",
            "[/34x]4*(1!n/33x)",
            acct_then(G::NumLines {
                min: 1,
                max: 4,
                width: 33,
            }),
        ),
        fs(
            "Field50F",
            "50F",
            "account + [/party_id] + [name/address] + BIC",
            seq(vec![
                G::NoLeadSlash35(),
                G::Nl,
                opt(seq(vec![G::SlashRun { min: 1, max: 34 }, G::Nl])),
                opt(seq(vec![name_lines(4, 35), G::Nl])),
                G::Bic,
            ]),
        ),
        fs(
            "Field50K",
            "50K",
            "[/34x]4*35x",
            acct_then(name_lines(4, 35)),
        ),
        fs("Field50C", "50C", "BIC", G::Bic),
        fs("Field50L", "50L", "35x", upto(X, 35)),
        fs(
            "Field50G",
            "50G",
            "/34x + BIC",
            seq(vec![G::SlashRun { min: 1, max: 34 }, G::Nl, G::Bic]),
        ),
        fs(
            "Field50H",
            "50H",
            "/34x + 4*35x",
            seq(vec![
                G::SlashRun { min: 1, max: 34 },
                G::Nl,
                name_lines(4, 35),
            ]),
        ),
        fs("Field51A", "51A", "[/1!a][/34x] + BIC", party_then(G::Bic)),
        fs("Field52A", "52A", "[/1!a][/34x] + BIC", party_then(G::Bic)),
        fs("Field52B", "52B", "[/1!a][/34x] + [35x]", party_b()),
        fs("Field52C", "52C", "/34x", G::SlashRun { min: 1, max: 34 }),
        fs(
            "Field52D",
            "52D",
            "[/1!a][/34x] + 4*35x",
            party_then(name_lines(4, 35)),
        ),
        fs("Field53A", "53A", "[/1!a][/34x] + BIC", party_then(G::Bic)),
        fs("Field53B", "53B", "[/1!a][/34x] + [35x]", party_b()),
        fs(
            "Field53D",
            "53D",
            "[/1!a][/34x] + 4*35x",
            party_then(name_lines(4, 35)),
        ),
        fs("Field54A", "54A", "[/1!a][/34x] + BIC", party_then(G::Bic)),
        fs("Field54B", "54B", "[/1!a][/34x] + [35x]", party_b()),
        fs(
            "Field54D",
            "54D",
            "[/1!a][/34x] + 4*35x",
            party_then(name_lines(4, 35)),
        ),
        fs("Field55A", "55A", "[/1!a][/34x] + BIC", party_then(G::Bic)),
        fs("Field55B", "55B", "[/1!a][/34x] + [35x]", party_b()),
        fs(
            "Field55D",
            "55D",
            "[/1!a][/34x] + 4*35x",
            party_then(name_lines(4, 35)),
        ),
        fs("Field56A", "56A", "[/1!a][/34x] + BIC", party_then(G::Bic)),
        fs("Field56C", "56C", "/34x", G::SlashRun { min: 1, max: 34 }),
        fs(
            "Field56D",
            "56D",
            "[/1!a][/34x] + 4*35x",
            party_then(name_lines(4, 35)),
        ),
        fs("Field57A", "57A", "[/1!a][/34x] + BIC", party_then(G::Bic)),
        fs("Field57B", "57B", "[/1!a][/34x] + [35x]", party_b()),
        fs("Field57C", "57C", "/34x", G::SlashRun { min: 1, max: 34 }),
        fs(
            "Field57D",
            "57D",
            "[/1!a][/34x] + 4*35x",
            party_then(name_lines(4, 35)),
        ),
        fs("Field58A", "58A", "[/1!a][/34x] + BIC", party_then(G::Bic)),
        fs(
            "Field58D",
            "58D",
            "[/1!a][/34x] + 4*35x",
            party_then(name_lines(4, 35)),
        ),
        fs(
            "Field59F",
            "59F",
            "[/34x]4*(1!n/33x)",
            acct_then(G::NumLines {
                min: 1,
                max: 4,
                width: 33,
            }),
        ),
        fs("Field59A", "59A", "[/34x] + BIC", acct_then(G::Bic)),
        fs(
            "Field59NoOption",
            "59",
            "[/34x]4*35x",
            acct_then(name_lines(4, 35)),
        ),
        amdt("Field60F", "60F", "1!a6!n3!a15d", balance()),
        amdt("Field60M", "60M", "1!a6!n3!a15d", balance()),
        amdt(
            "Field61",
            "61",
            "6!n[4!n]2a[1!a]15d1!a3!c[16x][//16x][34x]",
            seq(vec![
                G::Date6,
                opt(G::Mmdd),
                code(&["C", "D", "RC", "RD"]),
                opt(G::FundsCode),
                G::Amount {
                    max_len: 15,
                    with_ccy: false,
                    kind: AmtKind::Any,
                },
                G::Join(vec![code(&["S", "N", "F"]), fix(C, 3)]),
                // strict: the supplementary details on a line of their own. The format string the library
                // documents has no line break before [34x], and its parser says so too ("no `//` and no
                // second line: text beyond 16 characters is taken as supplementary details"): that
                // reading is permitted, not demanded
                alt(vec![
                    seq(vec![
                        G::RefNoDslash { max: 16 },
                        opt(seq(vec![lit("//"), G::RefNoDslash { max: 16 }])),
                        opt(seq(vec![G::Nl, G::RefNoDslash { max: 34 }])),
                    ]),
                    G::PermOnly(Box::new(G::RefNoDslash { max: 50 })),
                    G::PermOnly(Box::new(seq(vec![
                        G::RefNoDslash { max: 16 },
                        lit("//"),
                        G::RefNoDslash { max: 50 },
                    ]))),
                ]),
            ]),
        ),
        amdt("Field62F", "62F", "1!a6!n3!a15d", balance()),
        amdt("Field62M", "62M", "1!a6!n3!a15d", balance()),
        amdt("Field64", "64", "1!a6!n3!a15d", balance()),
        amdt("Field65", "65", "1!a6!n3!a15d", balance()),
        fs("Field70", "70", "4*35x", lines(4, 35)),
        fs("Field71A", "71A", "3!a", code(&["BEN", "OUR", "SHA"])),
        am("Field71F", "71F", "3!a15d", seq(vec![G::Ccy, amt15()])),
        am("Field71G", "71G", "3!a15d", seq(vec![G::Ccy, amt15()])),
        fs("Field71B", "71B", "6*35x", lines(6, 35)),
        fs("Field72", "72", "6*35x", lines(6, 35)),
        fs("Field75", "75", "6*35x", lines(6, 35)),
        fs("Field76", "76", "6*35x", lines(6, 35)),
        fs("Field77T", "77T", "9000z", G::Blob { max: 9000 }),
        fs("Field77A", "77A", "20*35x", lines(20, 35)),
        fs("Field77B", "77B", "3*35x", lines(3, 35)),
        fs("Field79", "79", "35*50x", lines(35, 50)),
        fs("Field86", "86", "6*65x", lines(6, 65)),
        am(
            "Field90D",
            "90D",
            "5n3!a15d",
            seq(vec![G::Uint { min: 1, max: 5 }, G::Ccy, amt15()]),
        ),
        am(
            "Field90C",
            "90C",
            "5n3!a15d",
            seq(vec![G::Uint { min: 1, max: 5 }, G::Ccy, amt15()]),
        ),
    ]
}
