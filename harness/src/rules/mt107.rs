//! MT107 — documented rules (doc comments and rule texts of validate_* in /repo/src/messages/mt107.rs,
//! SR2025 MT107 C1..C9, and the field 23E code rules T47/D81)
use super::mt104::{ccys, same_amount, split_top};
use super::*;

/// the library documents one list for both sequences
const VALID_23E_DOC: &[&str] = &["AUTH", "NAUT", "OTHR", "RTND"];

pub fn expected(v: &RView) -> Expect {
    let mut e = Expect::default();
    let (a, c) = split_top(v);
    let bs = v.seqs();
    let any_b = |pat: &str| bs.iter().any(|b| has(b, pat));
    let all_b = |pat: &str| !bs.is_empty() && bs.iter().all(|b| has(b, pat));

    // C1 (D86): 23E, and independently 50a A/K, either in A or in every B, not both (and not neither)
    for pat in ["23E", "50[AK]"] {
        let in_a = has(&a, pat);
        e.must_if((in_a && any_b(pat)) || (!in_a && !all_b(pat)), "D86");
    }
    // C2 (D73): 21E, 26T, 77B, 71A, 52a, 50a C/L: in A or in B occurrences, not both
    for pat in ["21E", "26T", "77B", "71A", "52*", "50[CL]"] {
        e.must_if(has(&a, pat) && any_b(pat), "D73");
    }
    // C3 (D77): 21E => 50a A/K in the same sequence (occurrence)
    e.must_if(has(&a, "21E") && !has(&a, "50[AK]"), "D77");
    for b in bs.iter() {
        e.must_if(has(b, "21E") && !has(b, "50[AK]"), "D77");
    }
    // C4 (C82): 72 present iff 23E of A is RTND
    let rtnd = get(&a, "23E").map(code_of).as_deref() == Some("RTND");
    e.must_if(rtnd != has(&a, "72"), "C82");
    // C5 (D79): 71F in some B <=> 71F in C; same for 71G
    for t in ["71F", "71G"] {
        e.must_if(any_b(t) != has(&c, t), "D79");
    }
    for b in bs.iter() {
        if let (Some(x33), Some(x32)) = (get(b, "33B"), get(b, "32B")) {
            // C6 (D21)
            e.must_if(ccy_of(x33) == ccy_of(x32) && same_amount(x33, x32), "D21");
            // C7 (D75)
            if ccy_of(x33) != ccy_of(x32) {
                e.must_if(!has(b, "36"), "D75");
            } else {
                e.must_if(has(b, "36"), "D75");
            }
        } else {
            e.must_if(has(b, "36"), "D75");
        }
    }
    // C8 (D80, C01): "the sum of the amounts of fields 32B in sequence B must be put either in field 32B of
    // sequence C when no charges are included, or in field 19 of sequence C. In the former case field 19 must
    // not be present (D80); in the latter case field 19 must equal the sum (C01)."
    // Two readings are defensible:
    //  H (handbook, as MT104 C9/C10 spell it out, decided by the amounts): 32B of C equals the sum => 19 not
    //    allowed (D80); differs => 19 mandatory (D80); 19 present => equals the sum (C01)
    //  L (the library's rule texts, decided by the presence of 71F/71G in sequence B): charges => 19 mandatory
    //    (D80) and equal to the sum (C01); no charges => 32B of C equals the sum (D80) and 19 not allowed (D80)
    // A code is demanded when both readings demand it and not judged when only one does.
    let b_amounts: Vec<DecStr> = bs
        .iter()
        .filter_map(|b| get(b, "32B").and_then(amount_of))
        .collect();
    let total = sum(&b_amounts);
    let settle_eq = get(&c, "32B")
        .and_then(amount_of)
        .map(|x| scaled(&x) == total);
    let f19_eq = get(&c, "19")
        .and_then(amount_of)
        .map(|x| scaled(&x) == total);
    if let Some(eq) = settle_eq {
        let has19 = has(&c, "19");
        let charges = any_b("71F") || any_b("71G");
        let h_d80 = eq == has19;
        let h_c01 = f19_eq == Some(false);
        let (l_d80, l_c01) = if charges {
            (!has19, f19_eq == Some(false))
        } else {
            (!eq || has19, false)
        };
        for (code, h, l) in [("D80", h_d80, l_d80), ("C01", h_c01, l_c01)] {
            if h && l {
                e.must(code);
            } else if h || l {
                e.undet(code);
            }
        }
    }
    // C9 (C02): one currency over all 32B and 71G of sequences B and C; one currency over all 71F
    let mut g1: Fs = Vec::new();
    let mut g2: Fs = Vec::new();
    for s in bs.iter().chain(std::iter::once(&c)) {
        g1.extend(all(s, "32B"));
        g1.extend(all(s, "71G"));
        g2.extend(all(s, "71F"));
    }
    e.must_if(ccys(&g1).len() > 1 || ccys(&g2).len() > 1, "C02");
    // field 23E: T47 code list, D81 narrative only with OTHR
    let mut f23: Vec<(&GenField, bool)> = all(&a, "23E").into_iter().map(|x| (x, true)).collect();
    for b in bs.iter() {
        f23.extend(all(b, "23E").into_iter().map(|x| (x, false)));
    }
    for (x, in_a) in f23 {
        let code = code_of(x);
        if !in_a && code == "RTND" {
            // the handbook lists AUTH, NAUT, OTHR for sequence B; the library documents one list incl. RTND
            e.undet("T47");
        } else {
            e.must_if(!VALID_23E_DOC.contains(&code.as_str()), "T47");
        }
        e.must_if(has_info(x) && code != "OTHR", "D81");
    }
    e
}

pub fn content_hook(tag: &str, src: &mut crate::choice::Src) -> Option<String> {
    match tag {
        "32B" | "33B" => {
            if src.chance(1, 12) {
                // a three-decimal currency: amounts that differ by less than one hundredth
                return Some(format!(
                    "KWD{}",
                    src.pick(&["100,", "100,001", "100,005", "100,"])
                ));
            }
            let c = *src.pick(&["USD", "USD", "USD", "USD", "USD", "EUR"]);
            let a = *src.pick(&[
                "100,", "100,", "100,", "200,", "300,", "200,01", "199,99", "50,", "100,00",
            ]);
            Some(format!("{c}{a}"))
        }
        "19" => Some(
            src.pick(&[
                "100,", "200,", "300,", "200,01", "199,99", "400,", "299,99", "150,",
            ])
            .to_string(),
        ),
        "71F" | "71G" => {
            let c = *src.pick(&["USD", "USD", "USD", "EUR"]);
            let a = *src.pick(&["1,", "2,50", "10,"]);
            Some(format!("{c}{a}"))
        }
        "23E" => {
            let c = *src.pick(&["AUTH", "NAUT", "OTHR", "RTND", "RTND", "RFDD", "ZZZZ"]);
            if src.chance(1, 4) {
                Some(format!("{c}/INFO"))
            } else {
                Some(c.to_string())
            }
        }
        _ => None,
    }
}
