//! MT900, MT910, MT920, MT935, MT940, MT941, MT942, MT950 — documented rules (doc comments of
//! validate_* and the rule description strings in /repo/src/messages/mt9*.rs, SR2025 category 9)
use super::*;

/// MT920 field 12: the message types that may be requested (T88)
const VALID_12: &[&str] = &["940", "941", "942", "950"];
/// MT935 field 23, subfield Function (T26)
const VALID_23_FUNCTION: &[&str] = &[
    "BASE",
    "CALL",
    "COMMERCIAL",
    "CURRENT",
    "DEPOSIT",
    "NOTICE",
    "PRIME",
];
/// currencies the generator uses that are ISO 4217 codes (anything else: T52 is left undetermined)
const KNOWN_ISO: &[&str] = &["USD", "USN", "EUR", "GBP", "JPY", "CHF"];

/// D/C mark of a 34F content `3!a[1!a]15d`
fn mark_of_34f(f: &GenField) -> Option<char> {
    f.content.chars().nth(3).filter(|c| c.is_ascii_alphabetic())
}

/// first two letters of the currency of a balance / floor limit / sum field
fn ccy2(f: &GenField) -> String {
    ccy_of(f).chars().take(2).collect()
}

/// C27: the first two characters of the currency code must be the same for all occurrences of the listed fields
fn c27(e: &mut Expect, fs: &[&GenField], pats: &[&str]) {
    let mut seen: BTreeSet<String> = BTreeSet::new();
    for f in fs {
        if pats.iter().any(|p| tag_is(&f.tag, p)) {
            seen.insert(ccy2(f));
        }
    }
    e.must_if(seen.len() > 1, "C27");
}

/// C23: one 34F => no D/C mark; two 34F => first carries D, second carries C
fn c23(e: &mut Expect, f34: &[&GenField]) {
    match f34.len() {
        0 => {}
        1 => e.must_if(mark_of_34f(f34[0]).is_some(), "C23"),
        _ => {
            e.must_if(mark_of_34f(f34[0]) != Some('D'), "C23");
            e.must_if(mark_of_34f(f34[1]) != Some('C'), "C23");
            // a third occurrence is outside the format; whatever it carries, the pair rule is already decided
        }
    }
}

/// MT935 field 23 `3!a[2!n]11x` (Currency)(Number of Days)(Function): is the content in breach of T26?
fn breaks_t26(content: &str) -> bool {
    let cs: Vec<char> = content.chars().collect();
    if cs.len() < 4 {
        return true;
    }
    if !cs[..3].iter().all(|c| c.is_ascii_uppercase()) {
        return true;
    }
    let rest = &cs[3..];
    let (days, function): (bool, String) =
        if rest.len() >= 2 && rest[..2].iter().all(|c| c.is_ascii_digit()) {
            (true, rest[2..].iter().collect())
        } else {
            (false, rest.iter().collect())
        };
    if !VALID_23_FUNCTION.contains(&function.as_str()) {
        return true;
    }
    // Number of Days must only be used when Function is NOTICE
    days && function != "NOTICE"
}

/// 37H `1!a[N]12d`: (indicator, sign used, rate is exactly zero)
fn parts_37h(content: &str) -> (char, bool, bool) {
    let mut it = content.chars();
    let ind = it.next().unwrap_or(' ');
    let rest: String = it.collect();
    let (sign, num) = match rest.strip_prefix('N') {
        Some(r) => (true, r.to_string()),
        None => (false, rest),
    };
    let zero = num.chars().any(|c| c.is_ascii_digit())
        && num.chars().filter(|c| c.is_ascii_digit()).all(|c| c == '0');
    (ind, sign, zero)
}

pub fn expected(v: &RView) -> Expect {
    let mut e = Expect::default();
    let f = v.everything();
    match v.mt {
        // MT900: no network validated rules
        "900" => {}
        // MT910 C1 (C06): either 50a or 52a must be present
        "910" => {
            e.must_if(!has(&f, "50*") && !has(&f, "52*"), "C06");
        }
        "920" => {
            for s in v.seqs() {
                let t12 = get(&s, "12").map(|x| x.content.clone()).unwrap_or_default();
                let f34 = all(&s, "34F");
                // T88: field 12 must be one of 940, 941, 942, 950
                e.must_if(!VALID_12.contains(&t12.as_str()), "T88");
                // C1 (C22): 12 = 942 => at least the (debit / debit-and-credit) floor limit present
                e.must_if(t12 == "942" && f34.is_empty(), "C22");
                // C2 (C23)
                c23(&mut e, &f34);
                // C3 (C40): same currency code in every 34F of the sequence
                let ccys: BTreeSet<String> = f34.iter().map(|x| ccy_of(x)).collect();
                e.must_if(ccys.len() > 1, "C40");
            }
        }
        "935" => {
            let seqs = v.seqs();
            // C1 (T10): the repetitive sequence appears 1..10 times
            e.must_if(seqs.is_empty() || seqs.len() > 10, "T10");
            for s in &seqs {
                // C2 (C83): either 23 or 25, not both
                e.must_if(has(s, "23") == has(s, "25"), "C83");
                for x in all(s, "23") {
                    e.must_if(breaks_t26(&x.content), "T26");
                    // the handbook also wants an ISO 4217 code here (T52); the message documentation is silent about it
                    let c: String = head(x, 3);
                    if !KNOWN_ISO.contains(&c.as_str()) {
                        e.undet("T52");
                    }
                }
                for x in all(s, "37H") {
                    let (ind, sign, zero) = parts_37h(&x.content);
                    // T51: indicator C or D
                    e.must_if(ind != 'C' && ind != 'D', "T51");
                    // T14: sign must not be used if the rate is zero
                    e.must_if(sign && zero, "T14");
                }
            }
        }
        "940" => {
            // C1 (C24): every 86 is preceded by a 61
            for (i, x) in v.fields.iter().enumerate() {
                if x.tag == "86" {
                    e.must_if(i == 0 || v.fields[i - 1].tag != "61", "C24");
                }
            }
            // C2 (C27)
            c27(&mut e, &f, &["60*", "62*", "64", "65"]);
        }
        "941" => {
            // C1 (C27)
            c27(&mut e, &f, &["60F", "90D", "90C", "62F", "64", "65"]);
        }
        "942" => {
            // C1 (C27)
            c27(&mut e, &f, &["34F", "90D", "90C"]);
            // C2 (C23)
            c23(&mut e, &all(&f, "34F"));
            // C3 (C24): an 86 is preceded by a 61, except when it is the last field of the message
            let n = v.fields.len();
            for (i, x) in v.fields.iter().enumerate() {
                if x.tag == "86" && i + 1 != n {
                    e.must_if(i == 0 || v.fields[i - 1].tag != "61", "C24");
                }
            }
        }
        "950" => {
            // C1 (C27)
            c27(&mut e, &f, &["60*", "62*", "64"]);
        }
        _ => e.undet("*"),
    }
    e
}

/// currencies sharing / not sharing the first two letters
const CCY2_POOL: &[&str] = &["USD", "USD", "USD", "USD", "USN", "USN", "USD", "EUR"];
const AMT_POOL: &[&str] = &["100,", "250,50", "1000,", "99,99", "1,"];

pub fn content_hook(mt: &str, tag: &str, src: &mut crate::choice::Src) -> Option<String> {
    match (mt, tag) {
        ("920", "12") => Some(
            src.pick(&[
                "940", "941", "942", "942", "942", "950", "103", "999", "000",
            ])
            .to_string(),
        ),
        ("920", "34F") => {
            let c = *src.pick(&["USD", "USD", "USD", "USN", "EUR", "USD"]);
            let ind = *src.pick(&["", "D", "C", "D", "C"]);
            Some(format!("{c}{ind}{}", src.pick(AMT_POOL)))
        }
        ("942", "34F") => {
            let c = *src.pick(CCY2_POOL);
            let ind = *src.pick(&["", "D", "C", "D", "C"]);
            Some(format!("{c}{ind}{}", src.pick(AMT_POOL)))
        }
        ("940" | "941" | "942" | "950", "60F" | "60M" | "62F" | "62M" | "64" | "65") => {
            let c = *src.pick(CCY2_POOL);
            let dc = *src.pick(&["C", "D"]);
            let d = crate::spec::gen_date6(src);
            Some(format!("{dc}{d}{c}{}", src.pick(AMT_POOL)))
        }
        ("941" | "942", "90C" | "90D") => {
            let c = *src.pick(CCY2_POOL);
            let n = 1 + src.below(20);
            Some(format!("{n}{c}{}", src.pick(AMT_POOL)))
        }
        ("935", "23") => Some(
            src.pick(&[
                "USDBASE",
                "EURCALL",
                "USDCOMMERCIAL",
                "GBPCURRENT",
                "CHFDEPOSIT",
                "USDNOTICE",
                "EURPRIME",
                // Number of Days: the field parser only lets it through after the letters NOT
                "NOT07NOTICE",
                "NOT15BASE",
                "NOT31CALL",
                "USD07NOTICE",
                // not a Function code
                "USDXXXX",
                "EURPRIM",
                "USDbase",
                "USDNOTICE7",
                "USD1CALL",
                "GBPBASE RATE",
                "USD/",
                // first subfield not 3!a (the field parser lets a blank through)
                "U DBASE",
            ])
            .to_string(),
        ),
        ("935", "37H") => Some(
            src.pick(&[
                "C2,5",
                "D3,75",
                "CN0,25",
                "DN1,",
                "C0,",
                "D0,00",
                "CN0,",
                "DN0,00",
                "CN00,0",
                "CN0,000001",
                "D0,000001",
            ])
            .to_string(),
        ),
        _ => None,
    }
}
