//! MT110 — documented rules (doc comments of validate_* in /repo/src/messages/mt110.rs, SR2025 MT110 C1, C2)
use super::*;

pub fn expected(v: &RView) -> Expect {
    let mut e = Expect::default();
    let seqs = v.seqs();
    // C1 (T10): the repetitive sequence (21 .. 59a) must not be present more than ten times
    e.must_if(seqs.len() > 10, "T10");
    // C2 (C02): the currency code in 32a must be the same for all occurrences of the field in the message
    let ccys: BTreeSet<String> = all(&v.everything(), "32[AB]")
        .iter()
        .map(|f| ccy_of(f))
        .collect();
    e.must_if(ccys.len() > 1, "C02");
    e
}

pub fn content_hook(tag: &str, src: &mut crate::choice::Src) -> Option<String> {
    // 32a: mostly one currency so that both "all equal" and "one differs" (first, middle or last) occur
    match tag {
        "32A" | "32B" => {
            let c = *src.pick(&["USD", "USD", "USD", "USD", "EUR", "USD", "USD", "GBP"]);
            let a = *src.pick(&["100,", "250,50", "1,", "99,99"]);
            if tag == "32A" {
                Some(format!("{}{c}{a}", crate::spec::gen_date6(src)))
            } else {
                Some(format!("{c}{a}"))
            }
        }
        _ => None,
    }
}
