//! MT200, MT202 (incl. COV sequence B), MT204, MT205, MT210 — documented rules (doc comments of validate_* in
//! /repo/src/messages/mt200.rs, mt202.rs, mt204.rs, mt205.rs, mt210.rs; SR2025 MT202 C1-C2, MT204 C1-C3, MT205 C1, MT210 C1-C3)
use super::*;

pub fn expected(v: &RView) -> Expect {
    let mut e = Expect::default();
    let top = v.top();
    let seqs = v.seqs();
    match v.mt {
        "200" => {
            // T80: "when field 72 contains /REJT/ or /RETN/, the message must follow the SWIFT Payments Reject/Return
            // Guidelines". Whether a message follows the guidelines is not something the documentation defines, so the
            // code is not judged whenever one of the two code words occurs in field 72 (in whatever position or case);
            // without the code words the rule cannot be violated.
            if let Some(n) = get(&top, "72") {
                let up = n.content.to_uppercase();
                if up.contains("REJT") || up.contains("RETN") {
                    e.undet("T80");
                }
            }
        }
        "202" => {
            // C1 (C81): 56a present in sequence A => 57a present in sequence A
            e.must_if(has(&top, "56*") && !has(&top, "57*"), "C81");
            // C2 (C68): 56a present in sequence B => 57a present in sequence B
            for b in &seqs {
                e.must_if(has(b, "56*") && !has(b, "57*"), "C68");
            }
        }
        "205" => {
            // C1 (C81): 56a present => 57a present
            e.must_if(has(&top, "56*") && !has(&top, "57*"), "C81");
        }
        "204" => {
            // C1 (C01): the amount in field 19 must equal the sum of the amounts in all occurrences of field 32B (exactly)
            let amounts: Vec<DecStr> = seqs
                .iter()
                .flat_map(|s| all(s, "32B"))
                .filter_map(amount_of)
                .collect();
            if let Some(total) = get(&top, "19").and_then(amount_of) {
                e.must_if(scaled(&total) != sum(&amounts), "C01");
            }
            // C2 (C02): the currency code in 32B must be the same for all occurrences
            let ccys: BTreeSet<String> = seqs
                .iter()
                .flat_map(|s| all(s, "32B"))
                .map(ccy_of)
                .collect();
            e.must_if(ccys.len() > 1, "C02");
            // C3 (T10): sequence B must not appear more than ten times
            e.must_if(seqs.len() > 10, "T10");
        }
        "210" => {
            // C1 (T10): the repetitive sequence must not appear more than ten times
            e.must_if(seqs.len() > 10, "T10");
            // C2 (C06): either 50a or 52a, but not both, must be present in each repetitive sequence
            for s in &seqs {
                e.must_if(has(s, "50*") == has(s, "52*"), "C06");
            }
            // C3 (C02): the currency code must be the same for all occurrences of 32B
            let ccys: BTreeSet<String> = seqs
                .iter()
                .flat_map(|s| all(s, "32B"))
                .map(ccy_of)
                .collect();
            e.must_if(ccys.len() > 1, "C02");
        }
        _ => {}
    }
    e
}

pub fn content_hook(mt: &str, tag: &str, src: &mut crate::choice::Src) -> Option<String> {
    match (mt, tag) {
        // MT204: few amounts, so that field 19 is often the exact sum, one cent / one unit off, or far off
        ("204", "32B") => {
            let c = *src.pick(&["USD", "USD", "USD", "USD", "USD", "EUR", "USD", "JPY"]);
            let a = if c == "JPY" {
                *src.pick(&["100,", "100,", "50,"])
            } else {
                *src.pick(&[
                    "100,", "100,", "100,", "100,", "100,00", "50,", "50,", "100,01",
                ])
            };
            Some(format!("{c}{a}"))
        }
        // weighted towards the most frequent sums (100, 200, 150, 300), their neighbours at one cent / a fraction of a
        // cent / one unit, and other spellings of the same number
        ("204", "19") => Some(
            src.pick(&[
                "100,", "100,", "100,", "100,", "100,00", "200,", "200,", "200,", "150,", "150,",
                "300,", "50,", "100,01", "99,99", "200,01", "199,99", "200,02", "100,001",
                "200,005", "150,01", "100,010", "101,", "250,", "1000,",
            ])
            .to_string(),
        ),
        ("210", "32B") => {
            let c = *src.pick(&["USD", "USD", "USD", "USD", "EUR", "USD", "USD", "GBP"]);
            let a = *src.pick(&["100,", "250,50", "1,", "99,99"]);
            Some(format!("{c}{a}"))
        }
        ("200", "72") => {
            if src.chance(2, 3) {
                Some(
                    src.pick(&[
                        "/REJT/99\n/AC01/\n/MREF/REFERENCE1",
                        "/RETN/99\n/AC01/\n/MREF/REFERENCE1",
                        "/REJT/REJECT",
                        "/RETN/99",
                        "/RTND/RETURN REASON",
                        "/ACC/INFORMATION",
                        "/ACC/LINE ONE\n/REJT/LATER LINE",
                        "/INS/ABCDUS33",
                        "PLAIN TEXT",
                        "/BNF/TEXT WITH /RETN/ INSIDE",
                        "/REJ/X",
                        "/RET/X",
                    ])
                    .to_string(),
                )
            } else {
                None
            }
        }
        _ => None,
    }
}
