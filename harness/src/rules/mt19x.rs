//! MT n90/n91/n92/n96/n99 and MT111/MT112 — documented rules (doc comments of validate_* and
//! validate_network_rules in /repo/src/messages/mt111.rs, mt112.rs, mt19x.rs, mt29x.rs; SR2025 MTn92 C1, MTn96 C1)
//!
//! The layouts of the generator never write a "copy of (at least the mandatory) fields of the
//! original message", so in every generated message the copy is absent.
use super::*;

/// cancellation reason codes allowed in field 79 of MT192 (constant table of mt192.rs)
const MT192_79_CODES: &[&str] = &[
    "AGNT", "AM09", "COVR", "CURR", "CUST", "CUTA", "DUPL", "FRAD", "TECH", "UPAY",
];

pub fn expected(v: &RView) -> Expect {
    let mut e = Expect::default();
    let f = v.everything();
    // the copy of the original message's fields is not part of any layout: never present
    let has_copy = false;
    match v.mt {
        // MTn92 C1 (C25): field 79 or a copy of at least the mandatory fields of the original message or both must be present
        "192" | "292" => {
            e.must_if(!has(&f, "79") && !has_copy, "C25");
            if v.mt == "192" {
                // T47 (MT192 only): "cancellation reason must be one of the allowed codes when using /CODE/ format in
                // field 79"; the code is the 4-character word between the slashes at the start of the first line
                if let Some(n) = get(&f, "79") {
                    let lines = lines_of(n);
                    let first = lines.first().cloned().unwrap_or_default();
                    if let Some(rest) = first.strip_prefix('/') {
                        match rest.find('/') {
                            Some(i) if rest[..i].chars().count() == 4 => {
                                e.must_if(!MT192_79_CODES.contains(&&rest[..i]), "T47");
                            }
                            // "/ABC/", "/ABCDE/", "/ABCD" (no closing slash), "//": whether that is "the /CODE/ format" is not settled
                            _ => e.undet("T47"),
                        }
                    }
                    // a code word at the start of a later line: the documentation only speaks of the first line
                    if !e.must.contains("T47") && lines.iter().skip(1).any(|l| l.starts_with('/')) {
                        e.undet("T47");
                    }
                }
            }
        }
        // MTn96 C1 (C31): either field 79 or a copy of at least the mandatory fields of the message to which the
        // answer relates, but not both, may be present
        "196" | "296" => {
            e.must_if(has(&f, "79") && has_copy, "C31");
        }
        // MT111, MT112, MTn90, MTn91, MTn99: no network validated rules
        _ => {}
    }
    e
}

pub fn content_hook(mt: &str, tag: &str, src: &mut crate::choice::Src) -> Option<String> {
    match (mt, tag) {
        ("192", "79") => Some(
            src.pick(&[
                "/AGNT/",
                "/DUPL/\nSECOND LINE",
                "/CUST/REQUESTED BY CUSTOMER",
                "/UPAY/",
                "/AM09/WRONG AMOUNT",
                "/REJT/\nREASON",
                "/ZZZZ/",
                "/XXXX/TEXT\n/DUPL/",
                "/agnt/",
                "/ACC/INFORMATION",
                "/DUPLI/",
                "/DUPL",
                "NARRATIVE TEXT",
                "NARRATIVE\n/ZZZZ/",
                ":20:COPY OF FIELDS",
                "LINE ONE\nLINE TWO",
                " /ZZZZ/",
            ])
            .to_string(),
        ),
        _ => None,
    }
}
