//! MT101 — documented rules (doc comments of validate_* in /repo/src/messages/mt101.rs, SR2025 MT101 C1..C9 and
//! the field 23E code rules T47/D66/D67/E46)
use super::*;

const VALID_23E: &[&str] = &[
    "CHQB", "CMSW", "CMTO", "CMZB", "CORT", "EQUI", "INTC", "NETS", "OTHR", "PHON", "REPA", "RTGS",
    "URGP",
];
const WITH_INFO: &[&str] = &["CMTO", "PHON", "OTHR", "REPA"];
/// unordered pairs of codes that must not appear together in one occurrence of sequence B
const BAD_PAIRS: &[(&str, &[&str])] = &[
    (
        "CHQB",
        &[
            "CMSW", "CMTO", "CMZB", "CORT", "NETS", "PHON", "REPA", "RTGS", "URGP",
        ],
    ),
    ("CMSW", &["CMTO", "CMZB"]),
    ("CMTO", &["CMZB"]),
    ("CORT", &["CMSW", "CMTO", "CMZB", "REPA"]),
    ("EQUI", &["CMSW", "CMTO", "CMZB"]),
    ("NETS", &["RTGS"]),
];

fn is_zero(f: &GenField) -> bool {
    // DecStr is normalised: no leading zeros in `int`, no trailing zeros in `frac`
    amount_of(f)
        .map(|d| d.int.is_empty() && d.frac.is_empty())
        .unwrap_or(false)
}

pub fn expected(v: &RView) -> Expect {
    let mut e = Expect::default();
    let a = v.top();
    let bs = v.seqs();

    for b in bs.iter() {
        let zero = get(b, "32B").map(is_zero).unwrap_or(false);
        let codes: Vec<String> = all(b, "23E").iter().map(|x| code_of(x)).collect();
        let equi = codes.iter().any(|c| c == "EQUI");

        // C1 (D54): 36 present => 21F present
        e.must_if(has(b, "36") && !has(b, "21F"), "D54");
        // C2 (D60): 33B present and 32B amount != 0 => 36 mandatory; in every other case 36 not allowed
        if has(b, "33B") && !zero {
            e.must_if(!has(b, "36"), "D60");
        } else {
            e.must_if(has(b, "36"), "D60");
        }
        // C5 (D68): currency of 33B differs from currency of 32B
        if let (Some(x33), Some(x32)) = (get(b, "33B"), get(b, "32B")) {
            e.must_if(ccy_of(x33) == ccy_of(x32), "D68");
        }
        // C7 (D65): 56a => 57a
        e.must_if(has(b, "56*") && !has(b, "57*"), "D65");
        // C9 (E54): zero amount: EQUI => 33B mandatory (21F optional); otherwise 33B and 21F not allowed
        if zero {
            if equi {
                e.must_if(!has(b, "33B"), "E54");
            } else {
                e.must_if(has(b, "33B") || has(b, "21F"), "E54");
            }
        }
        // field 23E: T47 code list, D66 narrative only with CMTO/PHON/OTHR/REPA, E46 no repetition except OTHR,
        // D67 forbidden combinations
        for x in all(b, "23E") {
            let c = code_of(x);
            e.must_if(!VALID_23E.contains(&c.as_str()), "T47");
            e.must_if(has_info(x) && !WITH_INFO.contains(&c.as_str()), "D66");
        }
        for (i, c) in codes.iter().enumerate() {
            e.must_if(c != "OTHR" && codes[..i].contains(c), "E46");
        }
        for (x, bad) in BAD_PAIRS {
            if codes.iter().any(|c| c == x) && codes.iter().any(|c| bad.contains(&c.as_str())) {
                e.must("D67");
            }
        }
    }

    // C3 (D61): ordering customer 50a F/G/H either in A or in every B, never both, never neither
    let oc_a = has(&a, "50[FGH]");
    let oc_any = bs.iter().any(|b| has(b, "50[FGH]"));
    let oc_all = !bs.is_empty() && bs.iter().all(|b| has(b, "50[FGH]"));
    e.must_if((oc_a && oc_any) || (!oc_a && !oc_all), "D61");
    // C4 (D62): instructing party 50a C/L in A or in B occurrences, not both
    e.must_if(
        has(&a, "50[CL]") && bs.iter().any(|b| has(b, "50[CL]")),
        "D62",
    );
    // C6 (D64): 52a in A or in B occurrences, not both
    e.must_if(has(&a, "52*") && bs.iter().any(|b| has(b, "52*")), "D64");
    // C8 (D98): 21R present => one currency in all 32B of sequence B
    if has(&a, "21R") {
        let ccys: BTreeSet<String> = bs
            .iter()
            .filter_map(|b| get(b, "32B").map(ccy_of))
            .collect();
        e.must_if(ccys.len() > 1, "D98");
    }
    e
}

pub fn content_hook(tag: &str, src: &mut crate::choice::Src) -> Option<String> {
    match tag {
        // fewer currencies than the shared pool so that C5 (equal currencies) and C8 (all equal) hit and miss
        "32B" | "33B" => {
            let c = *src.pick(&["USD", "USD", "EUR", "EUR", "GBP"]);
            let a = *src.pick(&["100,", "250,50", "1000,", "99,99", "1,"]);
            Some(format!("{c}{a}"))
        }
        "23E" => {
            // pairs from the combination table are likelier with a pool biased to the codes that occur in it
            let c = *src.pick(&[
                "CHQB", "CMSW", "CMTO", "CMZB", "CORT", "EQUI", "INTC", "NETS", "OTHR", "OTHR",
                "PHON", "REPA", "RTGS", "URGP", "ZZZZ", "HOLD",
            ]);
            if src.chance(1, 3) {
                Some(format!("{c}/INFO"))
            } else {
                Some(c.to_string())
            }
        }
        _ => None,
    }
}
