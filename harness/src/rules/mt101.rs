//! (rules to be transcribed)
use super::*;

pub fn expected(_v: &RView) -> Expect {
    let mut e = Expect::default();
    // until transcribed: every code is undetermined (no verdict)
    e.undet("*");
    e
}

pub fn content_hook(tag: &str, src: &mut crate::choice::Src) -> Option<String> {
    let _ = (tag, src);
    None
}
