//! MT104 — documented rules (doc comments and rule texts of validate_* in /repo/src/messages/mt104.rs,
//! SR2025 MT104 C1..C12, and the field 23E code rules T47/D81). C13 (field 119 of the user header, C94)
//! concerns block 3 and is not documented in the library; it is out of scope here.
use super::*;

const VALID_23E_A: &[&str] = &["AUTH", "NAUT", "OTHR", "RFDD", "RTND"];
const VALID_23E_B: &[&str] = &["AUTH", "NAUT", "OTHR"];

/// the fields of the settlement sequence C live in `top()` next to sequence A; sequence A never
/// contains these tags
pub(super) fn is_seq_c_tag(tag: &str) -> bool {
    matches!(tag, "32B" | "19" | "71F" | "71G") || tag_is(tag, "53*")
}

pub(super) fn split_top<'a>(v: &RView<'a>) -> (Fs<'a>, Fs<'a>) {
    let top = v.top();
    let a = top
        .iter()
        .filter(|f| !is_seq_c_tag(&f.tag))
        .copied()
        .collect();
    let c = top
        .iter()
        .filter(|f| is_seq_c_tag(&f.tag))
        .copied()
        .collect();
    (a, c)
}

pub(super) fn same_amount(x: &GenField, y: &GenField) -> bool {
    match (amount_of(x), amount_of(y)) {
        (Some(p), Some(q)) => p == q,
        _ => false,
    }
}

pub(super) fn ccys(fs: &[&GenField]) -> BTreeSet<String> {
    fs.iter().map(|f| ccy_of(f)).collect()
}

pub fn expected(v: &RView) -> Expect {
    let mut e = Expect::default();
    let (a, c) = split_top(v);
    let bs = v.seqs();

    let a23 = get(&a, "23E");
    let a_code = a23.map(code_of);
    let rfdd = a_code.as_deref() == Some("RFDD");
    let rtnd = a_code.as_deref() == Some("RTND");
    let any_b = |pat: &str| bs.iter().any(|b| has(b, pat));
    let all_b = |pat: &str| !bs.is_empty() && bs.iter().all(|b| has(b, pat));

    // Sequence C has a mandatory first field 32B. A generated message may carry 19/71F/71G/53a after the
    // last transaction without it; whether "sequence C is present" is then not settled by the documentation.
    let c_32b = get(&c, "32B");
    let c_stray = c_32b.is_none() && !c.is_empty();
    // ... and a 71F/71G written there without 32B/19 in front of it is textually indistinguishable from the
    // 71F/71G of the last transaction when that transaction has room for it
    let tail_ambiguous = c_32b.is_none()
        && !has(&c, "19")
        && match bs.last() {
            Some(l) => {
                (has(&c, "71F") && !has(l, "71F") && !has(l, "71G") && !has(l, "36"))
                    || (!has(&c, "71F") && has(&c, "71G") && !has(l, "71G") && !has(l, "36"))
            }
            None => false,
        };
    if tail_ambiguous {
        e.undet("D79");
        e.undet("C02");
        e.undet("C96");
    }

    // C1 (C75): 23E in A = RFDD or 23E absent from A => 23E in every B; 23E in A with another code => in no B
    match a23 {
        Some(_) if !rfdd => e.must_if(any_b("23E"), "C75"),
        _ => e.must_if(!all_b("23E"), "C75"),
    }
    // C2 (C76): creditor 50a A/K either in A or in every B; never both, never neither
    let cred_a = has(&a, "50[AK]");
    e.must_if(
        (cred_a && any_b("50[AK]")) || (!cred_a && !all_b("50[AK]")),
        "C76",
    );
    // C3 (D73): 21E, 26T, 52a, 71A, 77B, 50a C/L: in A or in B occurrences, not both
    for pat in ["21E", "26T", "52*", "71A", "77B", "50[CL]"] {
        e.must_if(has(&a, pat) && any_b(pat), "D73");
    }
    // C4 (D77): 21E => 50a A/K in the same sequence (occurrence)
    e.must_if(has(&a, "21E") && !cred_a, "D77");
    for b in bs.iter() {
        e.must_if(has(b, "21E") && !has(b, "50[AK]"), "D77");
    }
    // C5 (C82): 72 present iff 23E of A is RTND
    e.must_if(rtnd != has(&a, "72"), "C82");
    // C6 (D79): 71F in some B <=> 71F in C; same for 71G
    for t in ["71F", "71G"] {
        if !tail_ambiguous {
            e.must_if(any_b(t) != has(&c, t), "D79");
        }
    }
    for b in bs.iter() {
        if let (Some(x33), Some(x32)) = (get(b, "33B"), get(b, "32B")) {
            // C7 (D21): currency or amount or both differ between 33B and 32B
            e.must_if(ccy_of(x33) == ccy_of(x32) && same_amount(x33, x32), "D21");
            // C8 (D75): different currencies => 36 mandatory; same => not allowed
            if ccy_of(x33) != ccy_of(x32) {
                e.must_if(!has(b, "36"), "D75");
            } else {
                e.must_if(has(b, "36"), "D75");
            }
        } else {
            // C8: no 33B => 36 not allowed
            e.must_if(has(b, "36"), "D75");
        }
    }
    // C9 (D80), C10 (C01)
    let b_amounts: Vec<DecStr> = bs
        .iter()
        .filter_map(|b| get(b, "32B").and_then(amount_of))
        .collect();
    let total = sum(&b_amounts);
    if let Some(s) = c_32b {
        if let Some(sa) = amount_of(s) {
            let eq = scaled(&sa) == total;
            e.must_if(eq == has(&c, "19"), "D80");
        }
    }
    if let Some(f19) = get(&c, "19") {
        if let Some(x) = amount_of(f19) {
            e.must_if(scaled(&x) != total, "C01");
        }
    }
    // C11 (C02): one currency over all 32B (B and C); over all 71G (B and C); over all 71F (B and C)
    let mut g32: Fs = bs.iter().filter_map(|b| get(b, "32B")).collect();
    g32.extend(c_32b);
    let mut g71g: Fs = bs.iter().filter_map(|b| get(b, "71G")).collect();
    g71g.extend(get(&c, "71G"));
    let mut g71f: Fs = bs.iter().filter_map(|b| get(b, "71F")).collect();
    g71f.extend(get(&c, "71F"));
    if !tail_ambiguous {
        if ccys(&g32).len() > 1 || ccys(&g71g).len() > 1 || ccys(&g71f).len() > 1 {
            e.must("C02");
        } else {
            // handbook: "the currency code in fields 32B and 71G in sequences B and C must be the same for all
            // occurrences of these fields"; the library's rule texts state it per field. Whether a 71G currency
            // that differs from the 32B currency violates the rule is not settled.
            let mut both = ccys(&g32);
            both.extend(ccys(&g71g));
            if both.len() > 1 {
                e.undet("C02");
            }
        }
    } else if ccys(&g32).len() > 1 {
        e.must("C02");
    }
    // C12 (C96)
    if rfdd {
        // in B: 21E, 50a A/K, 52a, 71F, 71G not allowed; sequence C not allowed
        for b in bs.iter() {
            for pat in ["21E", "50[AK]", "52*", "71F", "71G"] {
                e.must_if(has(b, pat), "C96");
            }
        }
        e.must_if(c_32b.is_some(), "C96");
        // a 71F/71G at the end belongs either to the last B (not allowed) or to sequence C (not allowed)
        e.must_if(tail_ambiguous, "C96");
        if c_stray {
            e.undet("C96");
        }
    } else {
        // 21R not allowed in A; sequence C mandatory
        e.must_if(has(&a, "21R"), "C96");
        if c_stray {
            e.undet("C96");
        } else {
            e.must_if(c_32b.is_none(), "C96");
        }
    }
    // field 23E: T47 code lists per sequence, D81 narrative only with OTHR
    if let Some(x) = a23 {
        e.must_if(!VALID_23E_A.contains(&code_of(x).as_str()), "T47");
        e.must_if(has_info(x) && code_of(x) != "OTHR", "D81");
    }
    for b in bs.iter() {
        if let Some(x) = get(b, "23E") {
            e.must_if(!VALID_23E_B.contains(&code_of(x).as_str()), "T47");
            e.must_if(has_info(x) && code_of(x) != "OTHR", "D81");
        }
    }
    e
}

pub fn content_hook(tag: &str, src: &mut crate::choice::Src) -> Option<String> {
    match tag {
        // one dominant currency; amounts such that the sum over 1..3 transactions often equals, or misses by
        // one unit or one cent, the settlement amount / field 19 drawn from the same pool
        "32B" | "33B" => {
            if src.chance(1, 12) {
                // a three-decimal currency: amounts that differ by less than one hundredth
                return Some(format!(
                    "KWD{}",
                    src.pick(&["100,", "100,001", "100,005", "100,"])
                ));
            }
            let c = *src.pick(&["USD", "USD", "USD", "USD", "USD", "EUR"]);
            let a = *src.pick(&[
                "100,", "100,", "100,", "200,", "300,", "200,01", "199,99", "50,", "100,00",
            ]);
            Some(format!("{c}{a}"))
        }
        "19" => Some(
            src.pick(&[
                "100,", "200,", "300,", "200,01", "199,99", "400,", "299,99", "150,",
            ])
            .to_string(),
        ),
        "71F" | "71G" => {
            let c = *src.pick(&["USD", "USD", "USD", "EUR"]);
            let a = *src.pick(&["1,", "2,50", "10,"]);
            Some(format!("{c}{a}"))
        }
        "23E" => {
            let c = *src.pick(&[
                "AUTH", "NAUT", "OTHR", "RFDD", "RFDD", "RTND", "RTND", "ZZZZ",
            ]);
            if src.chance(1, 4) {
                Some(format!("{c}/INFO"))
            } else {
                Some(c.to_string())
            }
        }
        _ => None,
    }
}
