//! Reference implementation of the documented SR2025 network validation rules, one
//! module per message type, written from the doc comments above each `validate_*`
//! function in /repo/src/messages/mt*.rs and the SWIFT user handbook — over the
//! generator's own description of the message (`RView`), never over the library's
//! structs.
//!
//! Each module exposes `pub fn expected(v: &RView) -> Expect`.

use crate::layout::{GenField, GenMsg};
use crate::refs::DecStr;
use std::collections::BTreeSet;

pub mod mt101;
pub mod mt103;
pub mod mt104;
pub mod mt107;
pub mod mt110;
pub mod mt19x;
pub mod mt2xx;
pub mod mt9xx;

/// What the documentation demands of `validate_network_rules(false)` for one message.
#[derive(Default, Debug, Clone)]
pub struct Expect {
    /// error codes that must be reported (the message violates the rule)
    pub must: BTreeSet<String>,
    /// error codes whose rule is ambiguous for this message: reported or not, no verdict
    pub undetermined: BTreeSet<String>,
}

impl Expect {
    pub fn must(&mut self, code: &str) {
        self.must.insert(code.to_string());
    }
    pub fn undet(&mut self, code: &str) {
        self.undetermined.insert(code.to_string());
    }
    pub fn must_if(&mut self, cond: bool, code: &str) {
        if cond {
            self.must(code);
        }
    }
}

/// A read-only view of a generated message for the rule predicates.
pub struct RView<'a> {
    pub mt: &'a str,
    pub fields: &'a [GenField],
}

/// tag pattern: `"23E"` exact, `"50[AK]"` base + one of the letters (`-` = no letter), `"52*"` any option
pub fn tag_is(tag: &str, pat: &str) -> bool {
    if let Some(base) = pat.strip_suffix('*') {
        return tag.len() >= 2 && &tag[0..2] == base;
    }
    if let Some(i) = pat.find('[') {
        let base = &pat[..i];
        let letters = &pat[i + 1..pat.len() - 1];
        if tag.len() < 2 || &tag[0..2] != base {
            return false;
        }
        let l = &tag[2..];
        return letters.chars().any(|c| {
            if c == '-' {
                l.is_empty()
            } else {
                l.len() == 1 && l.starts_with(c)
            }
        });
    }
    tag == pat
}

pub type Fs<'a> = Vec<&'a GenField>;

pub fn has(fs: &[&GenField], pat: &str) -> bool {
    fs.iter().any(|f| tag_is(&f.tag, pat))
}
pub fn get<'a>(fs: &[&'a GenField], pat: &str) -> Option<&'a GenField> {
    fs.iter().find(|f| tag_is(&f.tag, pat)).copied()
}
pub fn all<'a>(fs: &[&'a GenField], pat: &str) -> Vec<&'a GenField> {
    fs.iter().filter(|f| tag_is(&f.tag, pat)).copied().collect()
}

impl<'a> RView<'a> {
    pub fn new(m: &'a GenMsg) -> RView<'a> {
        RView {
            mt: &m.mt,
            fields: &m.fields,
        }
    }
    /// fields outside any repeating sequence (sequence A, and the inline sequence C of MT104/107)
    pub fn top(&self) -> Fs<'a> {
        self.fields.iter().filter(|f| f.path.is_empty()).collect()
    }
    /// the occurrences of the repeating sequence, in order
    pub fn seqs(&self) -> Vec<Fs<'a>> {
        let mut out: Vec<Fs<'a>> = Vec::new();
        for f in self.fields.iter().filter(|f| !f.path.is_empty()) {
            let k = f.path[0];
            while out.len() <= k {
                out.push(Vec::new());
            }
            out[k].push(f);
        }
        out
    }
    pub fn everything(&self) -> Fs<'a> {
        self.fields.iter().collect()
    }
}

// ---- component accessors on a generated field (by documented position, from its content)

/// first `n` characters of the content
pub fn head(f: &GenField, n: usize) -> String {
    f.content.chars().take(n).collect()
}
/// instruction code of a 23E/23B-like content: the part before the first '/'
pub fn code_of(f: &GenField) -> String {
    f.content.split('/').next().unwrap_or("").to_string()
}
/// has additional information after `CODE/`
pub fn has_info(f: &GenField) -> bool {
    f.content.contains('/')
}
/// currency of `3!a15d`-shaped contents (32B, 33B, 71F, 71G) or `6!n3!a15d` (32A), `1!a6!n3!a15d` (60F..65), `5n3!a15d` (90C/D)
pub fn ccy_of(f: &GenField) -> String {
    let c = &f.content;
    let t = &f.tag;
    let skip = if t == "32A" || t == "32C" || t == "32D" {
        6
    } else if ["60F", "60M", "62F", "62M", "64", "65"].contains(&t.as_str()) {
        7
    } else if t == "90C" || t == "90D" {
        c.chars().take_while(|ch| ch.is_ascii_digit()).count()
    } else {
        0
    };
    c.chars().skip(skip).take(3).collect()
}
/// amount (decimal text) of the same shapes; for 34F skips the optional D/C indicator
pub fn amount_of(f: &GenField) -> Option<DecStr> {
    let c = &f.content;
    let t = f.tag.as_str();
    let rest: String = match t {
        "19" | "36" => c.clone(),
        "34F" => {
            let r: String = c.chars().skip(3).collect();
            r.trim_start_matches(['D', 'C']).to_string()
        }
        "90C" | "90D" => {
            let n = c.chars().take_while(|ch| ch.is_ascii_digit()).count();
            c.chars().skip(n + 3).collect()
        }
        "32A" | "32C" | "32D" => c.chars().skip(9).collect(),
        "60F" | "60M" | "62F" | "62M" | "64" | "65" => c.chars().skip(10).collect(),
        _ => c.chars().skip(3).collect(),
    };
    DecStr::parse(&rest)
}
pub fn lines_of(f: &GenField) -> Vec<String> {
    f.content.split('\n').map(|s| s.to_string()).collect()
}
/// sum of decimal amounts (exact, on decimal strings scaled to 6 decimals)
pub fn sum(ds: &[DecStr]) -> u128 {
    ds.iter().map(scaled).sum()
}
pub fn scaled(d: &DecStr) -> u128 {
    let mut f = d.frac.clone();
    while f.len() < 6 {
        f.push('0');
    }
    let s = format!("{}{}", if d.int.is_empty() { "0" } else { &d.int }, &f[..6]);
    s.parse().unwrap_or(0)
}

pub fn expected_for(m: &GenMsg) -> Option<Expect> {
    let v = RView::new(m);
    Some(match m.mt.as_str() {
        "101" => mt101::expected(&v),
        "103" => mt103::expected(&v),
        "104" => mt104::expected(&v),
        "107" => mt107::expected(&v),
        "110" => mt110::expected(&v),
        "192" | "196" | "292" | "296" | "111" | "112" | "190" | "191" | "199" | "290" | "291"
        | "299" => mt19x::expected(&v),
        "200" | "202" | "204" | "205" | "210" => mt2xx::expected(&v),
        "900" | "910" | "920" | "935" | "940" | "941" | "942" | "950" => mt9xx::expected(&v),
        _ => return None,
    })
}

/// Per-type content pools for rule-relevant fields (optional). Return `Some(content)` to
/// override what the C04 generator writes into field `tag` of a message of type `mt`;
/// `None` falls back to the shared pools in props/c04.rs and then to the field table.
pub fn content_hook(mt: &str, tag: &str, src: &mut crate::choice::Src) -> Option<String> {
    match mt {
        "101" => mt101::content_hook(tag, src),
        "104" => mt104::content_hook(tag, src),
        "107" => mt107::content_hook(tag, src),
        "110" => mt110::content_hook(tag, src),
        "192" | "196" | "292" | "296" | "111" | "112" | "190" | "191" | "199" | "290" | "291"
        | "299" => mt19x::content_hook(mt, tag, src),
        "200" | "202" | "204" | "205" | "210" => mt2xx::content_hook(mt, tag, src),
        "900" | "910" | "920" | "935" | "940" | "941" | "942" | "950" => {
            mt9xx::content_hook(mt, tag, src)
        }
        _ => None,
    }
}
