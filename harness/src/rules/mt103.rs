//! MT103 — documented rules (doc comments of validate_* in /repo/src/messages/mt103.rs, SR2025 MT103 C1..C18)
use super::*;

const VALID_23B: &[&str] = &["CRED", "CRTS", "SPAY", "SPRI", "SSTD"];
const VALID_23E: &[&str] = &[
    "CHQB", "CORT", "HOLD", "INTC", "PHOB", "PHOI", "PHON", "REPA", "SDVA", "TELB", "TELE", "TELI",
];
const WITH_INFO: &[&str] = &[
    "PHON", "PHOB", "PHOI", "TELE", "TELB", "TELI", "HOLD", "REPA",
];
const ORDER: &[&str] = &[
    "SDVA", "INTC", "REPA", "CORT", "HOLD", "CHQB", "PHOB", "TELB", "PHON", "TELE", "PHOI", "TELI",
];
const BAD_PAIRS: &[(&str, &[&str])] = &[
    ("SDVA", &["HOLD", "CHQB"]),
    ("INTC", &["HOLD", "CHQB"]),
    ("REPA", &["HOLD", "CHQB", "CORT"]),
    ("CORT", &["HOLD", "CHQB"]),
    ("HOLD", &["CHQB"]),
    ("PHOB", &["TELB"]),
    ("PHON", &["TELE"]),
    ("PHOI", &["TELI"]),
];

pub fn expected(v: &RView) -> Expect {
    let mut e = Expect::default();
    let f = v.everything();
    let b23 = get(&f, "23B").map(code_of).unwrap_or_default();
    let e23: Vec<String> = all(&f, "23E").iter().map(|x| code_of(x)).collect();

    // T36: 23B must be one of the MT103 codes
    e.must_if(!VALID_23B.contains(&b23.as_str()), "T36");
    // T48 / D97 / E46 / D98 / D67 on the 23E repetitions
    for x in all(&f, "23E") {
        let c = code_of(x);
        e.must_if(!VALID_23E.contains(&c.as_str()), "T48");
        e.must_if(has_info(x) && !WITH_INFO.contains(&c.as_str()), "D97");
    }
    for (i, c) in e23.iter().enumerate() {
        e.must_if(e23[..i].contains(c), "E46");
    }
    let pos: Vec<usize> = e23
        .iter()
        .filter_map(|c| ORDER.iter().position(|o| o == c))
        .collect();
    e.must_if(pos.windows(2).any(|w| w[1] < w[0]), "D98");
    for (a, bad) in BAD_PAIRS {
        if e23.iter().any(|c| c == a) && e23.iter().any(|c| bad.contains(&c.as_str())) {
            e.must("D67");
        }
    }
    // C1 (D75): 33B/36 dependency on the currencies of 33B and 32A
    let c32 = get(&f, "32A").map(ccy_of).unwrap_or_default();
    match get(&f, "33B") {
        Some(b) => {
            if ccy_of(b) != c32 {
                e.must_if(!has(&f, "36"), "D75");
            } else {
                e.must_if(has(&f, "36"), "D75");
            }
        }
        None => e.must_if(has(&f, "36"), "D75"),
    }
    // C3 (E01, E02)
    if b23 == "SPRI" {
        e.must_if(
            e23.iter()
                .any(|c| !["SDVA", "TELB", "PHOB", "INTC"].contains(&c.as_str())),
            "E01",
        );
    }
    if b23 == "SSTD" || b23 == "SPAY" {
        e.must_if(!e23.is_empty(), "E02");
    }
    // C4 (E06), C5 (C81)
    e.must_if(has(&f, "55*") && !(has(&f, "53*") && has(&f, "54*")), "E06");
    e.must_if(has(&f, "56*") && !has(&f, "57*"), "C81");
    // C6 (E16, E17)
    e.must_if(b23 == "SPRI" && has(&f, "56*"), "E16");
    e.must_if((b23 == "SSTD" || b23 == "SPAY") && has(&f, "56D"), "E17");
    // C7 (E13, D50, E15)
    let a71 = get(&f, "71A")
        .map(|x| x.content.clone())
        .unwrap_or_default();
    match a71.as_str() {
        "OUR" => e.must_if(has(&f, "71F"), "E13"),
        "SHA" => e.must_if(has(&f, "71G"), "D50"),
        "BEN" => e.must_if(!has(&f, "71F") || has(&f, "71G"), "E15"),
        _ => {}
    }
    // C8 (D51)
    e.must_if((has(&f, "71F") || has(&f, "71G")) && !has(&f, "33B"), "D51");
    // C9 (C02)
    if let Some(g) = get(&f, "71G") {
        e.must_if(ccy_of(g) != c32, "C02");
    }
    // C13 (E18): CHQB => no account line in 59a
    if e23.iter().any(|c| c == "CHQB") {
        if let Some(b) = get(&f, "59*") {
            if b.tag == "59F" {
                // whether the party identifier of option F counts as "account" is not settled by the documentation
                if b.content.starts_with('/') {
                    e.undet("E18");
                }
            } else {
                e.must_if(b.content.starts_with('/'), "E18");
            }
        }
    }
    // C16 (E44), C17 (E45)
    e.must_if(
        !has(&f, "56*") && e23.iter().any(|c| c == "TELI" || c == "PHOI"),
        "E44",
    );
    e.must_if(
        !has(&f, "57*") && e23.iter().any(|c| c == "TELE" || c == "PHON"),
        "E45",
    );
    e
}
