//! Driver shared by all properties: sharded proptest runs over choice sequences,
//! enumerated runs, counters, known-findings, replay files, evidence.

use crate::choice::{Src, fnv64, splitmix};
use proptest::strategy::{Strategy, ValueTree};
use proptest::test_runner::{Config, RngAlgorithm, TestCaseError, TestError, TestRng, TestRunner};
use serde_json::{Value, json};
use std::collections::{BTreeMap, BTreeSet, HashSet};
use std::sync::Mutex;
use std::sync::atomic::{AtomicBool, AtomicUsize, Ordering};

#[derive(Clone, Copy, PartialEq, Eq, Debug)]
pub enum Tier {
    Quick,
    Thorough,
}

#[derive(Clone, Debug)]
pub struct Violation {
    pub sig: String,
    pub detail: String,
}

pub fn viol(sig: impl Into<String>, detail: impl Into<String>) -> Violation {
    Violation {
        sig: sig.into(),
        detail: detail.into(),
    }
}

#[derive(Clone, Debug, serde::Deserialize)]
pub struct KnownEntry {
    pub property: String,
    pub signature: String,
    #[serde(default)]
    pub what_fails: String,
    #[serde(default)]
    pub root_cause: String,
}

#[derive(Clone, Debug)]
pub struct Found {
    pub sub: String,
    pub sig: String,
    pub detail: String,
    pub case: Value,
    pub shrunk: bool,
}

/// Per-thread accumulator.
#[derive(Default)]
pub struct Obs {
    pub evals: u64,
    pub nontrivial: HashSet<u64>,
    pub classes: BTreeMap<String, u64>,
    pub samples: BTreeMap<String, Vec<Value>>,
    pub known_hits: BTreeMap<String, u64>,
    pub unknown: Vec<Found>,
    pub excluded: BTreeMap<String, u64>,
    /// signatures of unknown violations reported since `begin_case`
    pub case_unknown: Vec<String>,
    pub frozen: bool,
}

impl Obs {
    pub fn eval(&mut self) {
        if !self.frozen {
            self.evals += 1;
        }
    }
    pub fn nontrivial(&mut self, digest: u64) {
        if !self.frozen {
            self.nontrivial.insert(digest);
        }
    }
    pub fn nontrivial_str(&mut self, s: &str) {
        self.nontrivial(fnv64(s.as_bytes()));
    }
    pub fn class(&mut self, c: &str) {
        if !self.frozen {
            *self.classes.entry(c.to_string()).or_insert(0) += 1;
        }
    }
    pub fn excluded(&mut self, c: &str) {
        if !self.frozen {
            *self.excluded.entry(c.to_string()).or_insert(0) += 1;
        }
    }
    /// keep the first 2 samples per class
    pub fn sample(&mut self, class: &str, f: impl FnOnce() -> Value) {
        if self.frozen {
            return;
        }
        let e = self.samples.entry(class.to_string()).or_default();
        if e.len() < 2 {
            e.push(f());
        }
    }
    pub fn merge(&mut self, o: Obs) {
        self.evals += o.evals;
        self.nontrivial.extend(o.nontrivial);
        for (k, v) in o.classes {
            *self.classes.entry(k).or_insert(0) += v;
        }
        for (k, v) in o.excluded {
            *self.excluded.entry(k).or_insert(0) += v;
        }
        for (k, v) in o.known_hits {
            *self.known_hits.entry(k).or_insert(0) += v;
        }
        for (k, v) in o.samples {
            let e = self.samples.entry(k).or_default();
            for s in v {
                if e.len() < 2 {
                    e.push(s);
                }
            }
        }
        self.unknown.extend(o.unknown);
    }
}

pub struct Ctx {
    pub prop: String,
    pub tier: Tier,
    pub seed: u64,
    pub discover: bool,
    pub strict_replay: bool,
    pub known: BTreeMap<String, KnownEntry>,
    /// known signatures containing `*` segments
    pub wild: Vec<String>,
    pub total: Mutex<Obs>,
    pub sub_stats: Mutex<BTreeMap<String, Value>>,
    pub exhaustive_parts: Mutex<Vec<String>>,
    pub rule: Mutex<Vec<String>>,
    pub assumptions: Mutex<Vec<String>>,
    pub threads: usize,
    pub start: std::time::Instant,
    pub inconclusive: AtomicBool,
}

pub const VERIF_ROOT: &str = "/verif";

impl Ctx {
    pub fn new(prop: &str, tier: Tier, seed: u64, discover: bool) -> Ctx {
        // the census (tools/census.sh) wants every signature, known or not
        let known = if std::env::var("VERIF_IGNORE_KNOWN").is_ok() {
            BTreeMap::new()
        } else {
            load_known(prop)
        };
        let wild: Vec<String> = known
            .keys()
            .filter(|k| k.split('|').any(|p| p == "*"))
            .cloned()
            .collect();
        Ctx {
            prop: prop.to_string(),
            tier,
            seed,
            discover,
            strict_replay: false,
            known,
            wild,
            total: Mutex::new(Obs::default()),
            sub_stats: Mutex::new(BTreeMap::new()),
            exhaustive_parts: Mutex::new(Vec::new()),
            rule: Mutex::new(Vec::new()),
            assumptions: Mutex::new(Vec::new()),
            threads: std::env::var("VERIF_THREADS")
                .ok()
                .and_then(|s| s.parse().ok())
                .unwrap_or(16),
            start: std::time::Instant::now(),
            inconclusive: AtomicBool::new(false),
        }
    }

    pub fn quick(&self) -> bool {
        self.tier == Tier::Quick
    }
    /// pick a work amount by tier
    /// work size of a sub-check: `quick` in the quick tier, `thorough` x VERIF_THOROUGH_SCALE (default 3)
    /// in the thorough tier
    pub fn n(&self, quick: u32, thorough: u32) -> u32 {
        if self.quick() {
            quick
        } else {
            let scale: u32 = std::env::var("VERIF_THOROUGH_SCALE")
                .ok()
                .and_then(|s| s.parse().ok())
                .unwrap_or(3)
                .max(1);
            thorough.saturating_mul(scale)
        }
    }

    pub fn add_rule(&self, s: &str) {
        self.rule.lock().unwrap().push(s.to_string());
    }
    pub fn assume(&self, s: &str) {
        self.assumptions.lock().unwrap().push(s.to_string());
    }
    pub fn exhaustive(&self, s: &str) {
        self.exhaustive_parts.lock().unwrap().push(s.to_string());
    }

    /// Classify a violation: known -> counted; unknown -> stored (first per signature per thread).
    /// exact entry, or an entry whose `*` segments match any segment (cross-cutting root causes)
    pub fn known_key(&self, sig: &str) -> Option<String> {
        if self.known.contains_key(sig) {
            return Some(sig.to_string());
        }
        let parts: Vec<&str> = sig.split('|').collect();
        for k in &self.wild {
            let kp: Vec<&str> = k.split('|').collect();
            if kp.len() == parts.len()
                && kp
                    .iter()
                    .zip(parts.iter())
                    .all(|(a, b)| *a == "*" || a == b)
            {
                return Some(k.clone());
            }
        }
        None
    }

    pub fn report(&self, obs: &mut Obs, sub: &str, v: Violation, case: &dyn Fn() -> Value) {
        if let Some(k) = self.known_key(&v.sig) {
            if !obs.frozen {
                *obs.known_hits.entry(k).or_insert(0) += 1;
            }
            return;
        }
        obs.case_unknown.push(v.sig.clone());
        if obs.frozen {
            return;
        }
        if !obs.unknown.iter().any(|f| f.sig == v.sig) {
            obs.unknown.push(Found {
                sub: sub.to_string(),
                sig: v.sig,
                detail: v.detail,
                case: case(),
                shrunk: false,
            });
        }
    }

    /// Run `body(shard, obs)` for every shard on a pool of worker threads; merge in shard order.
    pub fn run_shards(&self, sub: &str, nshards: usize, body: &(dyn Fn(usize, &mut Obs) + Sync)) {
        let t0 = std::time::Instant::now();
        let next = AtomicUsize::new(0);
        let results: Mutex<Vec<Option<Obs>>> = Mutex::new((0..nshards).map(|_| None).collect());
        std::thread::scope(|s| {
            for _ in 0..self.threads.min(nshards.max(1)) {
                s.spawn(|| {
                    loop {
                        let i = next.fetch_add(1, Ordering::SeqCst);
                        if i >= nshards {
                            break;
                        }
                        let mut obs = Obs::default();
                        body(i, &mut obs);
                        results.lock().unwrap()[i] = Some(obs);
                    }
                });
            }
        });
        let mut sub_evals = 0u64;
        let mut sub_nt = 0usize;
        let mut total = self.total.lock().unwrap();
        for o in results.into_inner().unwrap().into_iter().flatten() {
            sub_evals += o.evals;
            sub_nt += o.nontrivial.len();
            total.merge(o);
        }
        let mut ss = self.sub_stats.lock().unwrap();
        let e = ss
            .entry(sub.to_string())
            .or_insert(json!({"evaluations":0,"nontrivial_upper":0,"wall_s":0.0}));
        e["evaluations"] = json!(e["evaluations"].as_u64().unwrap_or(0) + sub_evals);
        e["nontrivial_upper"] = json!(e["nontrivial_upper"].as_u64().unwrap_or(0) + sub_nt as u64);
        e["wall_s"] = json!(e["wall_s"].as_f64().unwrap_or(0.0) + t0.elapsed().as_secs_f64());
    }

    /// Sharded proptest run: `gen(shard, src)` builds a case from proptest-owned choices,
    /// `oracle(case, obs)` returns violations. Unknown-signature violations fail the
    /// proptest case, are shrunk by proptest on that same signature and stored.
    pub fn run_generated<C: Clone>(
        &self,
        sub: &str,
        nshards: usize,
        cases_per_shard: u32,
        nchoices: usize,
        generate: &(dyn Fn(usize, &mut Src) -> C + Sync),
        oracle: &(dyn Fn(&C, &mut Obs) -> Vec<Violation> + Sync),
        to_json: &(dyn Fn(&C) -> Value + Sync),
    ) {
        let subname = sub.to_string();
        self.run_shards(sub, nshards, &|shard, obs| {
            let seed = splitmix(self.seed ^ splitmix(fnv64(subname.as_bytes()) ^ (shard as u64)));
            let mut seed_bytes = [0u8; 32];
            for (i, b) in seed_bytes.iter_mut().enumerate() {
                *b = (splitmix(seed.wrapping_add(i as u64 / 8)) >> ((i % 8) * 8)) as u8;
            }
            let cfg = Config {
                cases: cases_per_shard,
                failure_persistence: None,
                max_shrink_iters: 400,
                max_shrink_time: 0,
                verbose: 0,
                source_file: None,
                fork: false,
                ..Config::default()
            };
            let rng = TestRng::from_seed(RngAlgorithm::ChaCha, &seed_bytes);
            let mut runner = TestRunner::new_with_rng(cfg, rng);
            let strat = proptest::collection::vec(proptest::num::u32::ANY, nchoices);
            let obs_cell = std::cell::RefCell::new(std::mem::take(obs));
            let first_fail: std::cell::RefCell<Option<String>> = std::cell::RefCell::new(None);
            if self.discover {
                // census mode: never fail, just record every unknown signature
                for _ in 0..cases_per_shard {
                    let tree = strat.new_tree(&mut runner).expect("tree");
                    let choices = tree.current();
                    let mut o = obs_cell.borrow_mut();
                    let mut src = Src::new(&choices);
                    let case = generate(shard, &mut src);
                    o.eval();
                    o.case_unknown.clear();
                    let vs = oracle(&case, &mut o);
                    for v in vs {
                        self.report(&mut o, &subname, v, &|| to_json(&case));
                    }
                }
                *obs = obs_cell.into_inner();
                return;
            }
            let res = runner.run(&strat, |choices| {
                let mut o = obs_cell.borrow_mut();
                let mut src = Src::new(&choices);
                let case = generate(shard, &mut src);
                o.eval();
                o.case_unknown.clear();
                let vs = oracle(&case, &mut o);
                for v in vs {
                    self.report(&mut o, &subname, v, &|| to_json(&case));
                }
                let mut ff = first_fail.borrow_mut();
                match &*ff {
                    None => {
                        if let Some(sig) = o.case_unknown.first().cloned() {
                            *ff = Some(sig.clone());
                            o.frozen = true; // stop counting: the closure now re-runs for shrinking
                            return Err(TestCaseError::fail(sig));
                        }
                        Ok(())
                    }
                    Some(sig) => {
                        if o.case_unknown.iter().any(|s| s == sig) {
                            Err(TestCaseError::fail(sig.clone()))
                        } else {
                            Ok(())
                        }
                    }
                }
            });
            let mut o = obs_cell.into_inner();
            o.frozen = false;
            if let Err(TestError::Fail(reason, choices)) = res {
                let sig = reason.message().to_string();
                let mut src = Src::new(&choices);
                let case = generate(shard, &mut src);
                let mut tmp = Obs::default();
                tmp.frozen = true;
                let vs = oracle(&case, &mut tmp);
                if let Some(v) = vs.into_iter().find(|v| v.sig == sig) {
                    o.unknown.retain(|f| f.sig != sig);
                    o.unknown.push(Found {
                        sub: subname.clone(),
                        sig,
                        detail: v.detail,
                        case: to_json(&case),
                        shrunk: true,
                    });
                }
            } else if let Err(TestError::Abort(r)) = res {
                eprintln!("proptest abort in {}: {}", subname, r.message());
                self.inconclusive.store(true, Ordering::SeqCst);
            }
            *obs = o;
        });
    }

    /// Enumerated run: `cases(shard)` lists the cases of a shard.
    pub fn run_enumerated<C>(
        &self,
        sub: &str,
        nshards: usize,
        cases: &(dyn Fn(usize) -> Vec<C> + Sync),
        oracle: &(dyn Fn(&C, &mut Obs) -> Vec<Violation> + Sync),
        to_json: &(dyn Fn(&C) -> Value + Sync),
    ) {
        let subname = sub.to_string();
        self.run_shards(sub, nshards, &|shard, obs| {
            for case in cases(shard) {
                obs.eval();
                obs.case_unknown.clear();
                let vs = oracle(&case, obs);
                for v in vs {
                    self.report(obs, &subname, v, &|| to_json(&case));
                }
            }
        });
    }

    /// Write evidence, replay files; print KNOWN-FINDING / VIOLATION lines; return exit code.
    pub fn finish(&self) -> i32 {
        let total = self.total.lock().unwrap();
        let wall = self.start.elapsed().as_secs_f64();
        // unique unknown by signature (first in shard order; prefer shrunk)
        let mut uniq: BTreeMap<String, Found> = BTreeMap::new();
        for f in &total.unknown {
            match uniq.get(&f.sig) {
                Some(old) if old.shrunk || !f.shrunk => {}
                _ => {
                    uniq.insert(f.sig.clone(), f.clone());
                }
            }
        }
        let mut viol_lines = Vec::new();
        let dir = format!("{}/replays/{}", VERIF_ROOT, self.prop);
        if !uniq.is_empty() && !self.discover {
            let _ = std::fs::create_dir_all(&dir);
        }
        for (sig, f) in &uniq {
            let path = format!("{}/{:016x}.json", dir, fnv64(sig.as_bytes()));
            if self.discover {
                viol_lines.push((sig.clone(), path, f.detail.clone()));
                continue;
            }
            let body = json!({
                "property": self.prop, "sub": f.sub, "signature": sig, "detail": f.detail,
                "shrunk": f.shrunk, "seed": self.seed, "case": f.case,
            });
            let _ = std::fs::write(&path, serde_json::to_string_pretty(&body).unwrap());
            viol_lines.push((sig.clone(), path, f.detail.clone()));
        }
        for (sig, n) in &total.known_hits {
            let what = self
                .known
                .get(sig)
                .map(|k| k.what_fails.clone())
                .unwrap_or_default();
            println!(
                "KNOWN-FINDING: property={} {} ({} hits) {}",
                self.prop, sig, n, what
            );
        }
        let mut samples: Vec<Value> = Vec::new();
        for (class, vs) in &total.samples {
            for v in vs {
                if samples.len() < 40 {
                    samples.push(json!({"class": class, "case": v}));
                }
            }
        }
        if samples.is_empty() {
            samples.push(json!("(no sample recorded)"));
        }
        let exhaustive_parts = self.exhaustive_parts.lock().unwrap().clone();
        let mut coverage = json!({
            "evaluations": total.evals,
            "distinct_nontrivial": total.nontrivial.len(),
            "rule": self.rule.lock().unwrap().join(" | "),
            "samples": samples,
            "classes": total.classes,
            "excluded_or_undetermined": total.excluded,
            "known_finding_hits": total.known_hits,
            "sub_checks": *self.sub_stats.lock().unwrap(),
            "unknown_signatures": uniq.keys().collect::<Vec<_>>(),
        });
        if !exhaustive_parts.is_empty() {
            coverage["exhaustive_subdomains"] = json!(exhaustive_parts);
        }
        let ev = json!({
            "property_id": self.prop,
            "tier": if self.quick() {"quick"} else {"thorough"},
            "seed": self.seed,
            "level": "exploration",
            "coverage": coverage,
            "assumptions": *self.assumptions.lock().unwrap(),
            "wall_s": wall,
            "violations": uniq.len(),
        });
        if !self.discover {
            let _ = std::fs::create_dir_all(format!("{}/evidence", VERIF_ROOT));
            let p = format!("{}/evidence/{}.json", VERIF_ROOT, self.prop);
            std::fs::write(&p, serde_json::to_string_pretty(&ev).unwrap()).expect("write evidence");
        }
        println!(
            "SUMMARY property={} tier={:?} seed={} evaluations={} distinct_nontrivial={} known_signatures_hit={} unknown_signatures={} wall_s={:.1}",
            self.prop,
            self.tier,
            self.seed,
            total.evals,
            total.nontrivial.len(),
            total.known_hits.len(),
            uniq.len(),
            wall
        );
        if self.discover {
            for (sig, _path, detail) in &viol_lines {
                println!(
                    "DISCOVERED\t{}\t{}\t{}",
                    self.prop,
                    sig,
                    detail.replace('\n', "\\n")
                );
            }
            return 0;
        }
        for (sig, path, detail) in &viol_lines {
            println!(
                "VIOLATION property={} replay={} signature={} detail={}",
                self.prop,
                path,
                sig,
                detail.replace('\n', "\\n")
            );
        }
        if !viol_lines.is_empty() {
            return 1;
        }
        if self.inconclusive.load(Ordering::SeqCst) {
            return 2;
        }
        0
    }
}

#[derive(serde::Deserialize)]
struct KnownFile {
    #[serde(default)]
    findings: Vec<KnownEntry>,
}

pub fn load_known(prop: &str) -> BTreeMap<String, KnownEntry> {
    let mut m = BTreeMap::new();
    let p = format!("{}/known_findings.json", VERIF_ROOT);
    if let Ok(s) = std::fs::read_to_string(&p) {
        match serde_json::from_str::<KnownFile>(&s) {
            Ok(k) => {
                for e in k.findings {
                    if e.property == prop {
                        m.insert(e.signature.clone(), e);
                    }
                }
            }
            Err(e) => {
                eprintln!("known_findings.json unreadable: {e}");
                std::process::exit(2);
            }
        }
    }
    m
}

pub fn sig_set(vs: &[Violation]) -> BTreeSet<String> {
    vs.iter().map(|v| v.sig.clone()).collect()
}
