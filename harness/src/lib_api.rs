//! Uniform, string/JSON-level access to the library under test. Every call into
//! `/repo` goes through `guard`, so a panic becomes `LibErr::Panic` (judged by C07
//! only; other properties treat it as "not accepted").

use serde_json::Value;
use std::cell::RefCell;
use swift_mt_message::errors::{ParseError, SwiftValidationError};
use swift_mt_message::fields::*;
use swift_mt_message::messages::*;
use swift_mt_message::parsed_message::ParsedSwiftMessage;
use swift_mt_message::traits::{SwiftField, SwiftMessageBody};
use swift_mt_message::{SwiftMessage, SwiftParser};

#[derive(Clone, Debug)]
pub struct PanicInfo {
    pub msg: String,
    pub location: String,
    /// innermost frame inside the library (function path, no line numbers)
    pub lib_frame: String,
    pub kind: String,
}

#[derive(Clone, Debug)]
pub enum LibErr {
    Parse(ParseError),
    Json(String),
    Panic(PanicInfo),
    Other(String),
}

impl LibErr {
    pub fn is_panic(&self) -> bool {
        matches!(self, LibErr::Panic(_))
    }
    pub fn text(&self) -> String {
        match self {
            LibErr::Parse(e) => format!("{e}"),
            LibErr::Json(s) | LibErr::Other(s) => s.clone(),
            LibErr::Panic(p) => format!("PANIC {} at {}", p.msg, p.location),
        }
    }
}

pub type LibResult<T> = Result<T, LibErr>;

thread_local! {
    static LAST_PANIC: RefCell<Option<PanicInfo>> = const { RefCell::new(None) };
}

fn classify_panic(msg: &str) -> &'static str {
    let m = msg;
    if m.contains("char boundary") {
        "char-boundary"
    } else if m.contains("out of range") || m.contains("out of bounds") || m.contains("slice index")
    {
        "slice-range"
    } else if m.contains("unwrap()` on a `None`") {
        "unwrap-none"
    } else if m.contains("unwrap()` on an `Err`") || m.contains("called `Result::unwrap") {
        "unwrap-err"
    } else if m.contains("overflow") {
        "overflow"
    } else if m.contains("not implemented") || m.contains("explicit panic") {
        "explicit"
    } else {
        "other"
    }
}

fn innermost_lib_frame(bt: &str) -> String {
    // frames look like "  12: swift_mt_message::fields::field61::<impl ...>::parse"
    for line in bt.lines() {
        let l = line.trim();
        if let Some(idx) = l.find("swift_mt_message::") {
            if l.contains(" at ") && !l.contains(": ") {
                continue;
            }
            let mut f = l[idx..].to_string();
            // strip hash suffix ::h0123456789abcdef
            if let Some(p) = f.rfind("::h") {
                if f.len() - p == 19 {
                    f.truncate(p);
                }
            }
            return f;
        }
    }
    String::from("?")
}

pub fn install_panic_hook() {
    std::panic::set_hook(Box::new(|info| {
        let msg = if let Some(s) = info.payload().downcast_ref::<&str>() {
            s.to_string()
        } else if let Some(s) = info.payload().downcast_ref::<String>() {
            s.clone()
        } else {
            "non-string panic".to_string()
        };
        let location = info
            .location()
            .map(|l| format!("{}:{}", l.file(), l.line()))
            .unwrap_or_default();
        let in_harness = location.contains("harness/src") || location.contains("/verif/");
        let bt = std::backtrace::Backtrace::force_capture().to_string();
        let lib_frame = innermost_lib_frame(&bt);
        let kind = classify_panic(&msg).to_string();
        if in_harness {
            eprintln!("HARNESS PANIC: {msg} at {location}\n{bt}");
        }
        LAST_PANIC.with(|c| {
            *c.borrow_mut() = Some(PanicInfo {
                msg,
                location,
                lib_frame,
                kind,
            })
        });
    }));
}

pub fn guard<T>(f: impl FnOnce() -> T) -> LibResult<T> {
    match std::panic::catch_unwind(std::panic::AssertUnwindSafe(f)) {
        Ok(v) => Ok(v),
        Err(_) => {
            let p = LAST_PANIC
                .with(|c| c.borrow_mut().take())
                .unwrap_or(PanicInfo {
                    msg: "?".into(),
                    location: "?".into(),
                    lib_frame: "?".into(),
                    kind: "other".into(),
                });
            if p.location.contains("harness/src") {
                eprintln!(
                    "fatal: panic inside the harness itself: {} at {}",
                    p.msg, p.location
                );
                std::process::exit(2);
            }
            Err(LibErr::Panic(p))
        }
    }
}

fn flat<T>(r: LibResult<Result<T, ParseError>>) -> LibResult<T> {
    match r {
        Ok(Ok(v)) => Ok(v),
        Ok(Err(e)) => Err(LibErr::Parse(e)),
        Err(e) => Err(e),
    }
}

// ---------------------------------------------------------------- fields

#[derive(Clone, Debug)]
pub struct FieldVal {
    /// `to_swift_string()` (includes `:TAG:`)
    pub swift: String,
    pub json: Value,
    pub variant_tag: Option<&'static str>,
    /// `{:?}` of the value (shows what serde hides, e.g. the full year of a date serialised as YYMMDD)
    pub debug: String,
}

impl FieldVal {
    /// (tag, content) split of `swift`
    pub fn tag_content(&self) -> Option<(&str, &str)> {
        let s = self.swift.strip_prefix(':')?;
        let i = s.find(':')?;
        Some((&s[..i], &s[i + 1..]))
    }
}

pub struct FieldOps {
    pub name: &'static str,
    pub is_enum: bool,
    pub parse: fn(&str) -> LibResult<FieldVal>,
    pub parse_variant: fn(&str, Option<&str>, Option<&str>) -> LibResult<FieldVal>,
    pub from_json: fn(&Value) -> LibResult<FieldVal>,
}

fn field_val<F: SwiftField>(f: &F) -> FieldVal {
    FieldVal {
        swift: f.to_swift_string(),
        json: serde_json::to_value(f).unwrap_or(Value::String("<<serde error>>".into())),
        variant_tag: f.get_variant_tag(),
        debug: format!("{:?}", f),
    }
}

fn f_parse<F: SwiftField>(s: &str) -> LibResult<FieldVal> {
    flat(guard(|| F::parse(s).map(|f| field_val(&f))))
}
fn f_parse_variant<F: SwiftField>(
    s: &str,
    v: Option<&str>,
    t: Option<&str>,
) -> LibResult<FieldVal> {
    flat(guard(|| {
        F::parse_with_variant(s, v, t).map(|f| field_val(&f))
    }))
}
fn f_from_json<F: SwiftField>(v: &Value) -> LibResult<FieldVal> {
    match guard(|| serde_json::from_value::<F>(v.clone()).map(|f| field_val(&f))) {
        Ok(Ok(f)) => Ok(f),
        Ok(Err(e)) => Err(LibErr::Json(e.to_string())),
        Err(e) => Err(e),
    }
}

macro_rules! field_ops {
    ($( $t:ident : $is_enum:expr ),* $(,)?) => {
        pub static FIELDS: &[FieldOps] = &[
            $( FieldOps { name: stringify!($t), is_enum: $is_enum, parse: f_parse::<$t>, parse_variant: f_parse_variant::<$t>, from_json: f_from_json::<$t> } ),*
        ];
    };
}

field_ops! {
    Field11R:false, Field11S:false, Field11:false, Field12:false, Field13C:false, Field13D:false, Field19:false, Field20:false,
    Field21NoOption:false, Field21C:false, Field21D:false, Field21E:false, Field21F:false, Field21R:false,
    Field23:false, Field23B:false, Field23E:false, Field25NoOption:false, Field25A:false, Field25P:false, Field25AccountIdentification:true,
    Field26T:false, Field28:false, Field28C:false, Field28D:false, Field30:false,
    Field32A:false, Field32B:false, Field32C:false, Field32D:false, Field32:true, Field32AB:true, Field32AmountCD:true,
    Field33B:false, Field34F:false, Field36:false, Field37H:false,
    Field50NoOption:false, Field50A:false, Field50F:false, Field50K:false, Field50C:false, Field50L:false, Field50G:false, Field50H:false,
    Field50InstructingParty:true, Field50OrderingCustomerFGH:true, Field50OrderingCustomerAFK:true, Field50OrderingCustomerNCF:true, Field50Creditor:true,
    Field51A:false,
    Field52A:false, Field52B:false, Field52C:false, Field52D:false,
    Field52AccountServicingInstitution:true, Field52OrderingInstitution:true, Field52CreditorBank:true, Field52DrawerBank:true,
    Field53A:false, Field53B:false, Field53D:false, Field53SenderCorrespondent:true,
    Field54A:false, Field54B:false, Field54D:false, Field54ReceiverCorrespondent:true,
    Field55A:false, Field55B:false, Field55D:false, Field55ThirdReimbursementInstitution:true,
    Field56A:false, Field56C:false, Field56D:false, Field56Intermediary:true, Field56IntermediaryAD:true,
    Field57A:false, Field57B:false, Field57C:false, Field57D:false, Field57:true, Field57DebtInstitution:true,
    Field58A:false, Field58D:false, Field58:true,
    Field59F:false, Field59A:false, Field59NoOption:false, Field59:true, Field59Debtor:true,
    Field60F:false, Field60M:false, Field60:true, Field61:false, Field62F:false, Field62M:false, Field62:true,
    Field64:false, Field65:false, Field70:false, Field71A:false, Field71F:false, Field71G:false, Field71B:false,
    Field72:false, Field75:false, Field76:false, Field77T:false, Field77A:false, Field77B:false, Field79:false, Field86:false,
    Field90D:false, Field90C:false,
}

pub fn field_ops(name: &str) -> &'static FieldOps {
    FIELDS
        .iter()
        .find(|f| f.name == name)
        .unwrap_or_else(|| panic!("unknown field type {name}"))
}

// ---------------------------------------------------------------- messages

#[derive(Clone, Debug, PartialEq)]
pub struct VErr {
    pub code: String,
    pub field: String,
    pub message: String,
    pub display: String,
    /// Debug rendering: every payload of the structured error (related fields, expected values, ...)
    pub debug: String,
}

fn verrs(v: &[SwiftValidationError]) -> Vec<VErr> {
    v.iter()
        .map(|e| VErr {
            code: e.error_code().to_string(),
            field: e.field().to_string(),
            message: e.message().to_string(),
            display: e.to_string(),
            debug: format!("{:?}", e),
        })
        .collect()
}

#[derive(Clone, Debug)]
pub struct BodyVal {
    pub mt_string: String,
    pub json: Value,
    /// validate_network_rules(false), called twice, and (true)
    pub errs_all: Vec<VErr>,
    pub errs_all_again: Vec<VErr>,
    pub errs_first: Vec<VErr>,
    pub json_after_validate: Value,
    pub mt_string_after_validate: String,
}

#[derive(Clone, Debug)]
pub struct FullVal {
    pub message_type_field: String,
    pub mt_message: String,
    pub json: Value,
    pub body: BodyVal,
    pub block1: String,
    pub block2: String,
    pub block3: Option<String>,
    pub block5: Option<String>,
    pub is_valid: bool,
    /// (rule_name, message) of SwiftMessage::validate().errors
    pub validate_errors: Vec<(String, String)>,
    pub validate_warnings: usize,
    pub reject: bool,
    pub ret: bool,
    pub cover: bool,
    pub stp: bool,
}

fn body_val<T: SwiftMessageBody>(b: &T) -> BodyVal {
    let json = serde_json::to_value(b).unwrap_or(Value::String("<<serde error>>".into()));
    let mt_string = b.to_mt_string();
    let errs_first = verrs(&b.validate_network_rules(true));
    let errs_all = verrs(&b.validate_network_rules(false));
    // repeated several times: a result that depends on hidden state (hash seeds, counters) need not
    // differ on the very next call; the first differing repetition is kept
    let mut errs_all_again = verrs(&b.validate_network_rules(false));
    for _ in 0..6 {
        if errs_all_again != errs_all {
            break;
        }
        errs_all_again = verrs(&b.validate_network_rules(false));
    }
    let json_after_validate = serde_json::to_value(b).unwrap_or(Value::Null);
    let mt_string_after_validate = b.to_mt_string();
    BodyVal {
        mt_string,
        json,
        errs_all,
        errs_all_again,
        errs_first,
        json_after_validate,
        mt_string_after_validate,
    }
}

fn val_errs(r: &swift_mt_message::ValidationResult) -> Vec<(String, String)> {
    r.errors
        .iter()
        .map(|e| match e {
            swift_mt_message::ValidationError::BusinessRuleValidation { rule_name, message } => {
                (rule_name.clone(), message.clone())
            }
            other => (
                format!("<{}>", variant_name_validation(other)),
                other.to_string(),
            ),
        })
        .collect()
}

fn variant_name_validation(e: &swift_mt_message::ValidationError) -> &'static str {
    use swift_mt_message::ValidationError::*;
    match e {
        FormatValidation { .. } => "FormatValidation",
        LengthValidation { .. } => "LengthValidation",
        PatternValidation { .. } => "PatternValidation",
        ValueValidation { .. } => "ValueValidation",
        BusinessRuleValidation { .. } => "BusinessRuleValidation",
    }
}

fn full_val<T: SwiftMessageBody>(m: &SwiftMessage<T>) -> FullVal {
    let json = serde_json::to_value(m).unwrap_or(Value::String("<<serde error>>".into()));
    let vr = m.validate();
    FullVal {
        message_type_field: m.message_type.clone(),
        mt_message: m.to_mt_message(),
        json,
        body: body_val(&m.fields),
        block1: m.basic_header.to_string(),
        block2: m.application_header.to_string(),
        block3: m.user_header.as_ref().map(|h| h.to_string()),
        block5: m.trailer.as_ref().map(|h| h.to_string()),
        is_valid: vr.is_valid,
        validate_errors: val_errs(&vr),
        validate_warnings: vr.warnings.len(),
        reject: m.has_reject_codes(),
        ret: m.has_return_codes(),
        cover: m.is_cover_message(),
        stp: m.is_stp_message(),
    }
}

pub struct MsgOps {
    pub mt: &'static str,
    pub parse_block4: fn(&str) -> LibResult<BodyVal>,
    pub parse_full: fn(&str) -> LibResult<FullVal>,
    pub parse_with_errors: fn(&str) -> LibResult<Option<FullVal>>,
    pub body_from_json: fn(&Value) -> LibResult<BodyVal>,
    pub full_from_json: fn(&Value) -> LibResult<FullVal>,
    /// as_mtXXX(&parsed).is_some(), into_mtXXX(parsed) -> json
    pub as_this: fn(&ParsedSwiftMessage) -> bool,
    pub into_this: fn(ParsedSwiftMessage) -> Option<Value>,
}

fn m_parse_block4<T: SwiftMessageBody>(s: &str) -> LibResult<BodyVal> {
    flat(guard(|| T::parse_from_block4(s).map(|b| body_val(&b))))
}
fn m_parse_full<T: SwiftMessageBody>(s: &str) -> LibResult<FullVal> {
    flat(guard(|| SwiftParser::parse::<T>(s).map(|m| full_val(&m))))
}
fn m_parse_with_errors<T: SwiftMessageBody>(s: &str) -> LibResult<Option<FullVal>> {
    flat(guard(|| {
        SwiftParser::new()
            .parse_with_errors::<T>(s)
            .map(|r| match r {
                swift_mt_message::ParseResult::Success(m) => Some(full_val(&m)),
                _ => None,
            })
    }))
}
fn m_body_from_json<T: SwiftMessageBody + serde::de::DeserializeOwned>(
    v: &Value,
) -> LibResult<BodyVal> {
    match guard(|| serde_json::from_value::<T>(v.clone()).map(|b| body_val(&b))) {
        Ok(Ok(f)) => Ok(f),
        Ok(Err(e)) => Err(LibErr::Json(e.to_string())),
        Err(e) => Err(e),
    }
}
fn m_full_from_json<T: SwiftMessageBody + serde::de::DeserializeOwned>(
    v: &Value,
) -> LibResult<FullVal> {
    match guard(|| serde_json::from_value::<SwiftMessage<T>>(v.clone()).map(|b| full_val(&b))) {
        Ok(Ok(f)) => Ok(f),
        Ok(Err(e)) => Err(LibErr::Json(e.to_string())),
        Err(e) => Err(e),
    }
}

macro_rules! msg_ops {
    ($( $t:ident, $code:literal, $as_fn:ident, $into_fn:ident );* $(;)?) => {
        pub static MSGS: &[MsgOps] = &[
            $( MsgOps {
                mt: $code,
                parse_block4: m_parse_block4::<$t>,
                parse_full: m_parse_full::<$t>,
                parse_with_errors: m_parse_with_errors::<$t>,
                body_from_json: m_body_from_json::<$t>,
                full_from_json: m_full_from_json::<$t>,
                as_this: |p| p.$as_fn().is_some(),
                into_this: |p| p.$into_fn().map(|m| serde_json::to_value(&m).unwrap_or(Value::Null)),
            } ),*
        ];
    };
}

msg_ops! {
    MT101,"101",as_mt101,into_mt101; MT103,"103",as_mt103,into_mt103; MT104,"104",as_mt104,into_mt104;
    MT107,"107",as_mt107,into_mt107; MT110,"110",as_mt110,into_mt110; MT111,"111",as_mt111,into_mt111;
    MT112,"112",as_mt112,into_mt112; MT190,"190",as_mt190,into_mt190; MT191,"191",as_mt191,into_mt191;
    MT192,"192",as_mt192,into_mt192; MT196,"196",as_mt196,into_mt196; MT199,"199",as_mt199,into_mt199;
    MT200,"200",as_mt200,into_mt200; MT202,"202",as_mt202,into_mt202; MT204,"204",as_mt204,into_mt204;
    MT205,"205",as_mt205,into_mt205; MT210,"210",as_mt210,into_mt210; MT290,"290",as_mt290,into_mt290;
    MT291,"291",as_mt291,into_mt291; MT292,"292",as_mt292,into_mt292; MT296,"296",as_mt296,into_mt296;
    MT299,"299",as_mt299,into_mt299; MT900,"900",as_mt900,into_mt900; MT910,"910",as_mt910,into_mt910;
    MT920,"920",as_mt920,into_mt920; MT935,"935",as_mt935,into_mt935; MT940,"940",as_mt940,into_mt940;
    MT941,"941",as_mt941,into_mt941; MT942,"942",as_mt942,into_mt942; MT950,"950",as_mt950,into_mt950;
}

pub fn msg_ops(mt: &str) -> &'static MsgOps {
    MSGS.iter()
        .find(|m| m.mt == mt)
        .unwrap_or_else(|| panic!("unknown mt {mt}"))
}

pub fn msg_index(mt: &str) -> usize {
    MSGS.iter().position(|m| m.mt == mt).unwrap()
}

#[derive(Clone, Debug)]
pub struct AutoVal {
    pub message_type: &'static str,
    /// serde of ParsedSwiftMessage (tagged with mt_type)
    pub json: Value,
    pub is_valid: bool,
    pub validate_errors: Vec<(String, String)>,
    /// which as_mtXXX() are Some
    pub as_some: Vec<&'static str>,
    /// which into_mtXXX() are Some, with their json
    pub into_some: Vec<(&'static str, Value)>,
}

pub fn parse_auto(s: &str) -> LibResult<AutoVal> {
    flat(guard(|| {
        SwiftParser::parse_auto(s).map(|p| {
            let vr = p.validate();
            let mut as_some = Vec::new();
            let mut into_some = Vec::new();
            for m in MSGS {
                if (m.as_this)(&p) {
                    as_some.push(m.mt);
                }
                if let Some(j) = (m.into_this)(p.clone()) {
                    into_some.push((m.mt, j));
                }
            }
            AutoVal {
                message_type: p.message_type(),
                json: serde_json::to_value(&p).unwrap_or(Value::Null),
                is_valid: vr.is_valid,
                validate_errors: val_errs(&vr),
                as_some,
                into_some,
            }
        })
    }))
}

pub fn extract_block(s: &str, idx: u8) -> LibResult<Option<String>> {
    flat(guard(|| SwiftParser::extract_block(s, idx)))
}

// ---------------------------------------------------------------- plugin handlers

use dataflow_rs::engine::message::Message;
use dataflow_rs::engine::{AsyncFunctionHandler, FunctionConfig};
use std::sync::Arc;

thread_local! {
    static RT: tokio::runtime::Runtime = tokio::runtime::Builder::new_current_thread().build().unwrap();
    static DL: Arc<datalogic_rs::DataLogic> = Arc::new(datalogic_rs::DataLogic::new());
}

pub struct PluginOut {
    pub data: Value,
    pub metadata: Value,
}

fn run_handler(
    h: &dyn AsyncFunctionHandler,
    name: &str,
    payload: Value,
    data: Value,
    input: Value,
) -> LibResult<PluginOut> {
    let r = guard(|| {
        let mut msg = Message::from_value(&payload);
        if let Some(obj) = data.as_object() {
            for (k, v) in obj {
                msg.data_mut()
                    .as_object_mut()
                    .unwrap()
                    .insert(k.clone(), v.clone());
            }
        }
        msg.invalidate_context_cache();
        let cfg = FunctionConfig::Custom {
            name: name.to_string(),
            input,
        };
        let dl = DL.with(|d| d.clone());
        let res = RT.with(|rt| rt.block_on(h.execute(&mut msg, &cfg, dl)));
        res.map(|_| PluginOut {
            data: msg.data().clone(),
            metadata: msg.metadata().clone(),
        })
        .map_err(|e| format!("{e:?}"))
    });
    match r {
        Ok(Ok(v)) => Ok(v),
        Ok(Err(e)) => Err(LibErr::Other(e)),
        Err(e) => Err(e),
    }
}

/// parse_mt: MT text in data.src -> (data.dst JSON, metadata.dst)
pub fn plugin_parse(mt_text: &str) -> LibResult<(Value, Value)> {
    let out = run_handler(
        &swift_mt_message::plugin::Parse,
        "parse_mt",
        Value::Null,
        serde_json::json!({"src": mt_text}),
        serde_json::json!({"source":"src","target":"dst"}),
    )?;
    Ok((
        out.data.get("dst").cloned().unwrap_or(Value::Null),
        out.metadata.get("dst").cloned().unwrap_or(Value::Null),
    ))
}

/// parse_mt with the text as the message payload (source = "payload") instead of a data field
pub fn plugin_parse_payload(mt_text: &str) -> LibResult<(Value, Value)> {
    let out = run_handler(
        &swift_mt_message::plugin::Parse,
        "parse_mt",
        Value::String(mt_text.to_string()),
        serde_json::json!({}),
        serde_json::json!({"source":"payload","target":"dst"}),
    )?;
    Ok((
        out.data.get("dst").cloned().unwrap_or(Value::Null),
        out.metadata.get("dst").cloned().unwrap_or(Value::Null),
    ))
}

/// publish_mt: JSON in data.src (must carry message_type) -> MT text
pub fn plugin_publish(json_msg: &Value) -> LibResult<String> {
    let out = run_handler(
        &swift_mt_message::plugin::Publish,
        "publish_mt",
        Value::Null,
        serde_json::json!({"src": json_msg}),
        serde_json::json!({"source":"src","target":"dst"}),
    )?;
    match out.data.get("dst").and_then(|v| v.as_str()) {
        Some(s) => Ok(s.to_string()),
        None => Err(LibErr::Other("publish produced no string".into())),
    }
}

/// validate_mt: MT text -> {valid, errors, message_type?}
pub fn plugin_validate(mt_text: &str) -> LibResult<Value> {
    let out = run_handler(
        &swift_mt_message::plugin::Validate,
        "validate_mt",
        Value::Null,
        serde_json::json!({"src": mt_text}),
        serde_json::json!({"source":"src","target":"dst"}),
    )?;
    Ok(out.data.get("dst").cloned().unwrap_or(Value::Null))
}

/// generate_mt: datafake scenario (payload) -> generated JSON
pub fn plugin_generate(scenario: &Value) -> LibResult<Value> {
    let out = run_handler(
        &swift_mt_message::plugin::Generate,
        "generate_mt",
        scenario.clone(),
        Value::Null,
        serde_json::json!({"target":"dst"}),
    )?;
    Ok(out.data.get("dst").cloned().unwrap_or(Value::Null))
}

// ---------------------------------------------------------------- headers

/// kind: 1 = BasicHeader, 2 = ApplicationHeader, 3 = UserHeader, 5 = Trailer. Returns (Display, JSON).
pub fn header_parse(kind: u8, text: &str) -> LibResult<(String, Value)> {
    use swift_mt_message::headers::*;
    flat(guard(|| match kind {
        1 => BasicHeader::parse(text).map(|h| {
            (
                h.to_string(),
                serde_json::to_value(&h).unwrap_or(Value::Null),
            )
        }),
        2 => ApplicationHeader::parse(text).map(|h| {
            (
                h.to_string(),
                serde_json::to_value(&h).unwrap_or(Value::Null),
            )
        }),
        3 => UserHeader::parse(text).map(|h| {
            (
                h.to_string(),
                serde_json::to_value(&h).unwrap_or(Value::Null),
            )
        }),
        _ => Trailer::parse(text).map(|h| {
            (
                h.to_string(),
                serde_json::to_value(&h).unwrap_or(Value::Null),
            )
        }),
    }))
}

/// JSON -> header -> (Display, JSON)
pub fn header_from_json(kind: u8, v: &Value) -> LibResult<(String, Value)> {
    use swift_mt_message::headers::*;
    fn conv<H: serde::de::DeserializeOwned + serde::Serialize + std::fmt::Display>(
        v: &Value,
    ) -> Result<(String, Value), String> {
        serde_json::from_value::<H>(v.clone())
            .map(|h| {
                (
                    h.to_string(),
                    serde_json::to_value(&h).unwrap_or(Value::Null),
                )
            })
            .map_err(|e| e.to_string())
    }
    let r = guard(|| match kind {
        1 => conv::<BasicHeader>(v),
        2 => conv::<ApplicationHeader>(v),
        3 => conv::<UserHeader>(v),
        _ => conv::<Trailer>(v),
    });
    match r {
        Ok(Ok(x)) => Ok(x),
        Ok(Err(e)) => Err(LibErr::Json(e)),
        Err(e) => Err(e),
    }
}

// ---------------------------------------------------------------- legacy field-map API

use std::collections::{BTreeMap, HashMap};
pub type FMap = BTreeMap<String, Vec<(String, usize)>>;

fn to_btree(m: HashMap<String, Vec<(String, usize)>>) -> FMap {
    m.into_iter().collect()
}
fn to_hash(m: &FMap) -> HashMap<String, Vec<(String, usize)>> {
    m.iter().map(|(k, v)| (k.clone(), v.clone())).collect()
}

pub fn block4_fields(text: &str) -> LibResult<FMap> {
    flat(guard(|| {
        swift_mt_message::parser::parse_block4_fields(text).map(to_btree)
    }))
}

pub fn normalize_tag(raw: &str) -> LibResult<String> {
    guard(|| swift_mt_message::parser::normalize_field_tag(raw).into_owned())
}

#[derive(Clone, Debug, serde::Serialize, serde::Deserialize, PartialEq)]
pub enum TrackerOp {
    /// get_next_available(tag) without marking
    Peek(String),
    /// get_next_available(tag) then mark_consumed
    Take(String),
    /// find_field_with_variant_sequential_constrained(base, constraints)
    Find(String, Option<Vec<String>>),
    /// mark_consumed(tag, position of the k-th occurrence in input order): consumption out of order,
    /// as the library's own sequence parsing does
    Mark(String, usize),
    /// get_next_available + mark_consumed on a sub-list of the tag's occurrences (from the k-th on, at most
    /// n of them): the same tracker used with the per-sequence maps that split_into_sequences returns
    TakeSlice(String, usize, usize),
}

/// result of one op: (key, value, position) or None
pub type TrackerRes = Option<(String, String, usize)>;

pub fn run_tracker(map: &FMap, ops: &[TrackerOp]) -> LibResult<Vec<TrackerRes>> {
    use swift_mt_message::parser::{
        FieldConsumptionTracker, find_field_with_variant_sequential_constrained,
    };
    guard(|| {
        let h = to_hash(map);
        let mut tr = FieldConsumptionTracker::new();
        let mut out = Vec::new();
        for op in ops {
            match op {
                TrackerOp::Peek(tag) => {
                    let r = h
                        .get(tag)
                        .and_then(|vals| tr.get_next_available(tag, vals))
                        .map(|(v, p)| (tag.clone(), v.to_string(), p));
                    out.push(r);
                }
                TrackerOp::Take(tag) => {
                    let r = h
                        .get(tag)
                        .and_then(|vals| tr.get_next_available(tag, vals))
                        .map(|(v, p)| (tag.clone(), v.to_string(), p));
                    if let Some((_, _, p)) = &r {
                        tr.mark_consumed(tag, *p);
                    }
                    out.push(r);
                }
                TrackerOp::TakeSlice(tag, k, n) => {
                    let r = h.get(tag).and_then(|vals| {
                        let mut ps: Vec<(String, usize)> = vals.clone();
                        ps.sort_by_key(|x| x.1);
                        let lo = (*k).min(ps.len());
                        let hi = (lo + *n).min(ps.len());
                        let sub: Vec<(String, usize)> = ps[lo..hi].to_vec();
                        tr.get_next_available(tag, &sub)
                            .map(|(v, p)| (tag.clone(), v.to_string(), p))
                    });
                    if let Some((_, _, p)) = &r {
                        tr.mark_consumed(tag, *p);
                    }
                    out.push(r);
                }
                TrackerOp::Mark(tag, k) => {
                    let r = h.get(tag).and_then(|vals| {
                        let mut ps: Vec<(String, usize)> = vals.clone();
                        ps.sort_by_key(|x| x.1);
                        ps.get(*k).cloned()
                    });
                    if let Some((_, p)) = &r {
                        tr.mark_consumed(tag, *p);
                    }
                    out.push(r.map(|(v, p)| (tag.clone(), v, p)));
                }
                TrackerOp::Find(base, cons) => {
                    let cv: Option<Vec<&str>> = cons
                        .as_ref()
                        .map(|v| v.iter().map(|s| s.as_str()).collect());
                    let r = find_field_with_variant_sequential_constrained(
                        &h,
                        base,
                        &mut tr,
                        cv.as_deref(),
                    );
                    out.push(r.map(|(v, variant, p)| {
                        (format!("{}{}", base, variant.unwrap_or_default()), v, p)
                    }));
                }
            }
        }
        out
    })
}

pub fn split_sequences(
    map: &FMap,
    marker: &str,
    c_fields: &[String],
    has_c: bool,
) -> LibResult<(FMap, FMap, FMap)> {
    use swift_mt_message::parser::{SequenceConfig, split_into_sequences};
    flat(guard(|| {
        let cfg = SequenceConfig {
            sequence_b_marker: marker.to_string(),
            sequence_c_fields: c_fields.to_vec(),
            has_sequence_c: has_c,
        };
        split_into_sequences(&to_hash(map), &cfg).map(|p| {
            (
                to_btree(p.sequence_a),
                to_btree(p.sequence_b),
                to_btree(p.sequence_c),
            )
        })
    }))
}

pub fn sequence_config(mt: &str) -> (String, Vec<String>, bool) {
    let c = swift_mt_message::parser::get_sequence_config(mt);
    (c.sequence_b_marker, c.sequence_c_fields, c.has_sequence_c)
}

pub fn repetitive_sequence(map: &FMap, marker: &str) -> LibResult<Vec<FMap>> {
    flat(guard(|| {
        swift_mt_message::parser::parse_repetitive_sequence::<MT101>(&to_hash(map), marker)
            .map(|v| v.into_iter().map(to_btree).collect())
    }))
}

// ---------------------------------------------------------------- error rendering

pub fn render_error(e: &ParseError, input: &str) -> LibResult<usize> {
    guard(|| {
        let a = e.to_string();
        let b = e.debug_report();
        let c = e.brief_message();
        let d = e.format_with_context(input);
        let j = serde_json::to_string(e).unwrap_or_default();
        a.len() + b.len() + c.len() + d.len() + j.len()
    })
}
