//! Small exact reference oracles, written independently of the library:
//! block-4 tokenizer, numeric-aware content comparison, decimal strings,
//! proleptic Gregorian calendar, ISO-4217 minor units.

use serde::{Deserialize, Serialize};

// ------------------------------------------------------------ tokenizer

#[derive(Clone, Debug, PartialEq, Eq, Serialize, Deserialize)]
pub struct Tok {
    pub tag: String,
    pub content: String,
}

/// Does `line` start a field? `:` + 2 digits + optional upper-case letter + `:`.
/// Returns the byte length of the marker.
pub fn field_marker(line: &str) -> Option<(String, usize)> {
    let b = line.as_bytes();
    if b.len() < 4 || b[0] != b':' || !b[1].is_ascii_digit() || !b[2].is_ascii_digit() {
        return None;
    }
    if b[3] == b':' {
        return Some((line[1..3].to_string(), 4));
    }
    if b.len() >= 5 && b[3].is_ascii_uppercase() && b[4] == b':' {
        return Some((line[1..4].to_string(), 5));
    }
    None
}

/// Reference tokenizer of a block-4 text (with or without the `{4:` wrapper's
/// leading newline and the `-` terminator line). Line endings LF or CRLF.
/// Text before the first field marker is returned separately.
pub fn tokenize(block4: &str) -> (String, Vec<Tok>) {
    let norm = block4.replace("\r\n", "\n");
    let mut toks: Vec<Tok> = Vec::new();
    let mut preamble = String::new();
    for line in norm.split('\n') {
        if line == "-" || line == "-}" {
            break;
        }
        if let Some((tag, n)) = field_marker(line) {
            toks.push(Tok {
                tag,
                content: line[n..].to_string(),
            });
        } else if let Some(last) = toks.last_mut() {
            last.content.push('\n');
            last.content.push_str(line);
        } else {
            if !preamble.is_empty() {
                preamble.push('\n');
            }
            preamble.push_str(line);
        }
    }
    for t in toks.iter_mut() {
        while t.content.ends_with('\n') {
            t.content.pop();
        }
    }
    (preamble, toks)
}

pub fn tags(toks: &[Tok]) -> Vec<String> {
    toks.iter().map(|t| t.tag.clone()).collect()
}

pub fn render(toks: &[Tok], crlf: bool, terminator: bool) -> String {
    let nl = if crlf { "\r\n" } else { "\n" };
    let mut s = String::new();
    for t in toks {
        s.push(':');
        s.push_str(&t.tag);
        s.push(':');
        s.push_str(&t.content.replace('\n', nl));
        s.push_str(nl);
    }
    if terminator {
        s.push('-');
    } else {
        // drop the final newline
        let l = s.len() - nl.len().min(s.len());
        if s.ends_with(nl) {
            s.truncate(l);
        }
    }
    s
}

// ------------------------------------------------------------ decimals

/// Normalised non-negative decimal: integer digits without leading zeros ("" = 0),
/// fraction digits without trailing zeros.
#[derive(Clone, Debug, PartialEq, Eq, Hash)]
pub struct DecStr {
    pub int: String,
    pub frac: String,
}

impl DecStr {
    /// Accepts `[0-9]*[,.]?[0-9]*` with at least one digit.
    pub fn parse(s: &str) -> Option<DecStr> {
        let mut int = String::new();
        let mut frac = String::new();
        let mut seen_sep = false;
        let mut digits = 0;
        for c in s.chars() {
            if c.is_ascii_digit() {
                digits += 1;
                if seen_sep { frac.push(c) } else { int.push(c) }
            } else if (c == ',' || c == '.') && !seen_sep {
                seen_sep = true;
            } else {
                return None;
            }
        }
        if digits == 0 {
            return None;
        }
        let int = int.trim_start_matches('0').to_string();
        let frac = frac.trim_end_matches('0').to_string();
        Some(DecStr { int, frac })
    }
    pub fn written_decimals(s: &str) -> usize {
        match s.find([',', '.']) {
            Some(i) => s[i + 1..].len(),
            None => 0,
        }
    }
    pub fn significant_decimals(&self) -> usize {
        self.frac.len()
    }
    pub fn to_plain(&self) -> String {
        let i = if self.int.is_empty() { "0" } else { &self.int };
        if self.frac.is_empty() {
            i.to_string()
        } else {
            format!("{}.{}", i, self.frac)
        }
    }
    /// From a serde_json number rendered in its shortest form (handles exponents).
    pub fn from_json_number(v: &serde_json::Value) -> Option<DecStr> {
        let n = v.as_number()?;
        let s = n.to_string();
        Self::from_float_text(&s)
    }
    pub fn from_float_text(s: &str) -> Option<DecStr> {
        if s.starts_with('-') {
            return None;
        }
        let (mant, exp) = match s.find(['e', 'E']) {
            Some(i) => (&s[..i], s[i + 1..].parse::<i32>().ok()?),
            None => (s, 0),
        };
        let (ip, fp) = match mant.find('.') {
            Some(i) => (&mant[..i], &mant[i + 1..]),
            None => (mant, ""),
        };
        if !ip.chars().all(|c| c.is_ascii_digit()) || !fp.chars().all(|c| c.is_ascii_digit()) {
            return None;
        }
        let mut digits: String = format!("{ip}{fp}");
        let mut point = ip.len() as i32 + exp;
        if point < 0 {
            digits = format!("{}{}", "0".repeat((-point) as usize), digits);
            point = 0;
        }
        while (digits.len() as i32) < point {
            digits.push('0');
        }
        let (a, b) = digits.split_at(point as usize);
        DecStr::parse(&format!("{a}.{b}"))
    }
}

// ------------------------------------------------------------ numeric-aware comparison

#[derive(Debug, PartialEq, Eq)]
enum Seg {
    Text(String),
    Num(DecStr),
}

fn segments(s: &str) -> Vec<Seg> {
    let cs: Vec<char> = s.chars().collect();
    let mut out = Vec::new();
    let mut i = 0;
    let mut text = String::new();
    while i < cs.len() {
        // a decimal may also start with its separator (`,5`) when no digit precedes it
        let lead_sep = (cs[i] == ',' || cs[i] == '.')
            && i + 1 < cs.len()
            && cs[i + 1].is_ascii_digit()
            && (i == 0 || !cs[i - 1].is_ascii_digit());
        if lead_sep {
            let st = i;
            i += 1;
            while i < cs.len() && cs[i].is_ascii_digit() {
                i += 1;
            }
            let run: String = cs[st..i].iter().collect();
            if !text.is_empty() {
                out.push(Seg::Text(std::mem::take(&mut text)));
            }
            out.push(Seg::Num(DecStr::parse(&run).unwrap()));
            continue;
        }
        if cs[i].is_ascii_digit() {
            let st = i;
            while i < cs.len() && cs[i].is_ascii_digit() {
                i += 1;
            }
            if i < cs.len() && (cs[i] == ',' || cs[i] == '.') {
                i += 1;
                while i < cs.len() && cs[i].is_ascii_digit() {
                    i += 1;
                }
            }
            let run: String = cs[st..i].iter().collect();
            if !text.is_empty() {
                out.push(Seg::Text(std::mem::take(&mut text)));
            }
            out.push(Seg::Num(DecStr::parse(&run).unwrap()));
        } else {
            text.push(cs[i]);
            i += 1;
        }
    }
    if !text.is_empty() {
        out.push(Seg::Text(text));
    }
    out
}

/// Does the text contain a decimal with more than 15 significant digits? (An f64, the
/// library's amount type, holds 15 decimal digits exactly; longer amounts are a
/// separate, known class.)
pub fn has_long_number(s: &str) -> bool {
    segments(s).iter().any(|g| match g {
        // formatted with up to 4 decimals (the largest currency precision)
        Seg::Num(d) => {
            d.int.len() + d.frac.len() > 15 || (d.int.len() >= 12 && d.int.len() + 4 > 15)
        }
        _ => false,
    })
}

pub fn norm_content(s: &str) -> String {
    let mut t = s.replace("\r\n", "\n");
    while t.ends_with('\n') {
        t.pop();
    }
    t
}

/// `a ≈ b`: equal after normalising line endings / final newline, and, outside
/// maximal numeric runs identical, numeric runs equal as decimals.
pub fn approx_eq(a: &str, b: &str) -> bool {
    let a = norm_content(a);
    let b = norm_content(b);
    if a == b {
        return true;
    }
    segments(&a) == segments(&b)
}

// ------------------------------------------------------------ calendar

pub fn is_leap(y: i32) -> bool {
    (y % 4 == 0 && y % 100 != 0) || y % 400 == 0
}

pub fn days_in_month(y: i32, m: u32) -> u32 {
    match m {
        1 | 3 | 5 | 7 | 8 | 10 | 12 => 31,
        4 | 6 | 9 | 11 => 30,
        2 => {
            if is_leap(y) {
                29
            } else {
                28
            }
        }
        _ => 0,
    }
}

pub fn valid_ymd(y: i32, m: u32, d: u32) -> bool {
    (1..=12).contains(&m) && d >= 1 && d <= days_in_month(y, m)
}

/// six ASCII digits -> (yy, mm, dd)
pub fn split6(s: &str) -> Option<(u32, u32, u32)> {
    if s.len() != 6 || !s.bytes().all(|b| b.is_ascii_digit()) {
        return None;
    }
    Some((
        s[0..2].parse().ok()?,
        s[2..4].parse().ok()?,
        s[4..6].parse().ok()?,
    ))
}

/// valid in at least one of the two candidate centuries
pub fn valid6_some_century(s: &str) -> bool {
    match split6(s) {
        Some((yy, m, d)) => valid_ymd(1900 + yy as i32, m, d) || valid_ymd(2000 + yy as i32, m, d),
        None => false,
    }
}
/// valid in both candidate centuries (so acceptance cannot depend on the pivot)
pub fn valid6_all_centuries(s: &str) -> bool {
    match split6(s) {
        Some((yy, m, d)) => valid_ymd(1900 + yy as i32, m, d) && valid_ymd(2000 + yy as i32, m, d),
        None => false,
    }
}

pub fn valid_hhmm(s: &str) -> bool {
    s.len() == 4
        && s.bytes().all(|b| b.is_ascii_digit())
        && s[0..2].parse::<u32>().unwrap() <= 23
        && s[2..4].parse::<u32>().unwrap() <= 59
}

// ------------------------------------------------------------ ISO 4217

/// (code, minor units). Active ISO-4217 codes with well-established minor units.
pub const CURRENCIES: &[(&str, u8)] = &[
    ("AED", 2),
    ("AFN", 2),
    ("ALL", 2),
    ("AMD", 2),
    ("ANG", 2),
    ("AOA", 2),
    ("ARS", 2),
    ("AUD", 2),
    ("AWG", 2),
    ("AZN", 2),
    ("BAM", 2),
    ("BBD", 2),
    ("BDT", 2),
    ("BGN", 2),
    ("BHD", 3),
    ("BIF", 0),
    ("BMD", 2),
    ("BND", 2),
    ("BOB", 2),
    ("BRL", 2),
    ("BSD", 2),
    ("BTN", 2),
    ("BWP", 2),
    ("BYN", 2),
    ("BZD", 2),
    ("CAD", 2),
    ("CDF", 2),
    ("CHF", 2),
    ("CLF", 4),
    ("CLP", 0),
    ("CNY", 2),
    ("COP", 2),
    ("CRC", 2),
    ("CUP", 2),
    ("CVE", 2),
    ("CZK", 2),
    ("DJF", 0),
    ("DKK", 2),
    ("DOP", 2),
    ("DZD", 2),
    ("EGP", 2),
    ("ERN", 2),
    ("ETB", 2),
    ("EUR", 2),
    ("FJD", 2),
    ("FKP", 2),
    ("GBP", 2),
    ("GEL", 2),
    ("GHS", 2),
    ("GIP", 2),
    ("GMD", 2),
    ("GNF", 0),
    ("GTQ", 2),
    ("GYD", 2),
    ("HKD", 2),
    ("HNL", 2),
    ("HTG", 2),
    ("HUF", 2),
    ("IDR", 2),
    ("ILS", 2),
    ("INR", 2),
    ("IQD", 3),
    ("IRR", 2),
    ("ISK", 0),
    ("JMD", 2),
    ("JOD", 3),
    ("JPY", 0),
    ("KES", 2),
    ("KGS", 2),
    ("KHR", 2),
    ("KMF", 0),
    ("KPW", 2),
    ("KRW", 0),
    ("KWD", 3),
    ("KYD", 2),
    ("KZT", 2),
    ("LAK", 2),
    ("LBP", 2),
    ("LKR", 2),
    ("LRD", 2),
    ("LSL", 2),
    ("LYD", 3),
    ("MAD", 2),
    ("MDL", 2),
    ("MGA", 2),
    ("MKD", 2),
    ("MMK", 2),
    ("MNT", 2),
    ("MOP", 2),
    ("MUR", 2),
    ("MVR", 2),
    ("MWK", 2),
    ("MXN", 2),
    ("MYR", 2),
    ("MZN", 2),
    ("NAD", 2),
    ("NGN", 2),
    ("NIO", 2),
    ("NOK", 2),
    ("NPR", 2),
    ("NZD", 2),
    ("OMR", 3),
    ("PAB", 2),
    ("PEN", 2),
    ("PGK", 2),
    ("PHP", 2),
    ("PKR", 2),
    ("PLN", 2),
    ("PYG", 0),
    ("QAR", 2),
    ("RON", 2),
    ("RSD", 2),
    ("RUB", 2),
    ("RWF", 0),
    ("SAR", 2),
    ("SBD", 2),
    ("SCR", 2),
    ("SDG", 2),
    ("SEK", 2),
    ("SGD", 2),
    ("SHP", 2),
    ("SOS", 2),
    ("SRD", 2),
    ("SSP", 2),
    ("SYP", 2),
    ("SZL", 2),
    ("THB", 2),
    ("TJS", 2),
    ("TMT", 2),
    ("TND", 3),
    ("TOP", 2),
    ("TRY", 2),
    ("TTD", 2),
    ("TWD", 2),
    ("TZS", 2),
    ("UAH", 2),
    ("UGX", 0),
    ("USD", 2),
    ("UYU", 2),
    ("UYW", 4),
    ("UZS", 2),
    ("VND", 0),
    ("VUV", 0),
    ("WST", 2),
    ("XAF", 0),
    ("XCD", 2),
    ("XOF", 0),
    ("XPF", 0),
    ("YER", 2),
    ("ZAR", 2),
    ("ZMW", 2),
];

pub fn minor_units(ccy: &str) -> Option<u8> {
    CURRENCIES.iter().find(|(c, _)| *c == ccy).map(|(_, d)| *d)
}

/// precious-metal / commodity codes (SWIFT C08: not allowed in payment amounts)
pub const COMMODITY: &[&str] = &["XAU", "XAG", "XPD", "XPT"];

#[cfg(test)]
mod tests {
    use super::*;
    #[test]
    fn tok() {
        let (p, t) = tokenize("\n:20:REF\r\n:50K:/ACC\r\nNAME\r\n:71A:OUR\r\n-");
        assert_eq!(p, "");
        assert_eq!(t.len(), 3);
        assert_eq!(t[1].content, "/ACC\nNAME");
    }
    #[test]
    fn approx() {
        assert!(approx_eq("USD1234,50", "USD1234,5"));
        assert!(approx_eq("USD1234,", "USD1234,00"));
        assert!(!approx_eq("C1,23456", "C1,2346"));
        assert!(approx_eq("A\r\nB", "A\nB"));
        assert!(approx_eq("00012/001", "12/1"));
    }
    #[test]
    fn dec() {
        assert_eq!(DecStr::from_float_text("1e3"), DecStr::parse("1000"));
        assert_eq!(DecStr::from_float_text("1.5e-3"), DecStr::parse("0.0015"));
        assert_eq!(DecStr::from_float_text("1234.5"), DecStr::parse("1234,50"));
    }
}
