//! Message layout specification: one line of a small regular notation per message
//! type (transcribed from the struct docs / documented parse order of
//! /repo/src/messages/mt*.rs and the SR2025 layouts they cite), with a generator of
//! well-formed messages and a recogniser of tag sequences.
//!
//! Notation: `T` mandatory, `T?` optional, `T*` 0..n, `T+` 1..n, `T[XY]` option
//! letters (`-` = no letter), `( … ){m,n}` repeating sequence, `< a b >` exactly one of.

use crate::choice::Src;
use crate::fieldkit::spec_of_tag;
use crate::spec::Comp;
use serde::{Deserialize, Serialize};
use std::sync::OnceLock;

pub const LAYOUTS: &[(&str, &str)] = &[
    (
        "101",
        "20 21R? 28D 50[CL]? 50[FGH]? 52[AC]? 51A? 30 25? ( 21 21F? 23E* 32B 50[CL]? 50[FGH]? 52[AC]? 56[ACD]? 57[ABCD]? 59[-AF] 70? 77B? 33B? 71A 25A? 36? ){1,}",
    ),
    (
        "103",
        "20 13C* 23B 23E* 26T? 32A 33B? 36? 50[AFK] 51A? 52[AD]? 53[ABD]? 54[ABD]? 55[ABD]? 56[ACD]? 57[ABCD]? 59[-AF] 70? 71A 71F* 71G? 72? 77B? 77T?",
    ),
    (
        "104",
        "20 21R? 23E? 21E? 30 51A? 50[CL]? 50[AK]? 52[ACD]? 26T? 77B? 71A? 72? ( 21 23E? 21C? 21D? 21E? 32B 50[CL]? 50[AK]? 52[ACD]? 57[ABCD]? 59[-A] 70? 26T? 77B? 33B? 71A? 71F? 71G? 36? ){1,} (: 32B 19? 71F? 71G? 53[ABD]? ){0,1}",
    ),
    (
        "107",
        "20 23E? 21E? 30 51A? 50[CL]? 50[AK]? 52[ACD]? 26T? 77B? 71A? 72? ( 21 23E? 21C? 21D? 21E? 32B 50[CL]? 50[AK]? 52[ACD]? 57[ABCD]? 59[-AF] 70? 26T? 77B? 33B? 71A? 71F? 71G? 36? ){1,} 32B 19? 71F? 71G? 53[ABD]?",
    ),
    (
        "110",
        "20 53[ABD]? 54[ABD]? 72? ( 21 30 32[AB] 50[AFK]? 52[ABD]? 59[-AF] ){1,10}",
    ),
    ("111", "20 21 30 32[AB] 52[AD]? 59? 75?"),
    ("112", "20 21 30 32[AB] 52[AD]? 59? 76"),
    ("190", "20 21 25 32[CD] 52[AD]? 71B 72?"),
    ("191", "20 21 32B 52[AD]? 57[ABCD]? 71B 72?"),
    ("192", "20 21 11S 79?"),
    ("196", "20 21 76 77A? 11? 79?"),
    ("199", "20 21? 79"),
    ("200", "20 32A 53B? 56[AD]? 57[ABD] 72?"),
    (
        "202",
        "20 21 13C* 32A 52[AD]? 53[ABD]? 54[ABD]? 56[ACD]? 57[ABCD]? 58[AD] 72? ( 50[AFK] 52[AD]? 56[ACD]? 57[ABCD]? 59[-AF]? 70? 72? 33B? ){0,1}",
    ),
    (
        "204",
        "19 20 30 57[ABCD]? 58[AD]? 72? ( 20 21? 32B 53[ABD]? 72? ){1,10}",
    ),
    (
        "205",
        "20 21 13C* 23B? 32A 33B? 52[AD]? 53[ABD]? 54[ABD]? 56[ACD]? 57[ABCD]? 58[AD] 72?",
    ),
    (
        "210",
        "20 25? 30 ( 21? 32B 50[-CF]? 52[AD]? 56[ACD]? ){1,10}",
    ),
    ("290", "20 21 25 32[CD] 52[AD]? 71B 72?"),
    ("291", "20 21 32B 52[AD]? 57[ABD]? 71B 72?"),
    ("292", "20 21 11S 79"),
    ("296", "20 21 76 77A? < 11R 11S >? 79?"),
    ("299", "20 21? 79"),
    ("900", "20 21 25[-P] 13D? 32A 52[AD]? 72?"),
    ("910", "20 21 25[-P] 13D? 32A 50[AFK]? 52[AD]? 56[ACD]? 72?"),
    ("920", "20 ( 12 25 34F? 34F? ){1,100}"),
    ("935", "20 ( < 23 25 > 30 37H+ ){1,10} 72?"),
    ("940", "20 21? 25 28C 60F ( 61 86? ){1,} 62F 64? 65*"),
    (
        "941",
        "20 21? 25[-P] 28 13D? 60F? 90D? 90C? 62F 64? 65* 86?",
    ),
    (
        "942",
        "20 21? 25[-P] 28C 34F 34F? 13D ( 61 86? )* < (: 90D 90C? 86? ){1,1} (: 90C 86? ){1,1} >?",
    ),
    ("950", "20 25 28C 60[FM] 61* 62[FM] 64?"),
];

#[derive(Clone, Debug)]
pub enum L {
    Field {
        base: String,
        letters: Vec<String>,
        min: usize,
        max: usize,
    },
    /// `inline`: the group is not a JSON sequence of its own (its fields sit at the parent level)
    Group {
        items: Vec<L>,
        min: usize,
        max: usize,
        inline: bool,
    },
    OneOf {
        items: Vec<L>,
        min: usize,
        max: usize,
    },
}

pub const UNBOUNDED: usize = usize::MAX;

fn parse_quant(q: &str) -> (usize, usize) {
    match q {
        "" => (1, 1),
        "?" => (0, 1),
        "*" => (0, UNBOUNDED),
        "+" => (1, UNBOUNDED),
        _ => {
            let inner = q.trim_start_matches('{').trim_end_matches('}');
            let mut it = inner.split(',');
            let a: usize = it.next().unwrap().parse().unwrap();
            let b = it.next().unwrap_or("");
            let b = if b.is_empty() {
                UNBOUNDED
            } else {
                b.parse().unwrap()
            };
            (a, b)
        }
    }
}

fn parse_items(toks: &[String], i: &mut usize, closer: &str) -> Vec<L> {
    let mut out = Vec::new();
    while *i < toks.len() {
        let t = toks[*i].clone();
        if t.starts_with(closer) && !closer.is_empty() {
            return out;
        }
        *i += 1;
        if t == "(" || t == "<" || t == "(:" {
            let close = if t == "<" { ">" } else { ")" };
            let items = parse_items(toks, i, close);
            let ct = toks[*i].clone();
            *i += 1;
            let (min, max) = parse_quant(&ct[1..]);
            out.push(if t == "<" {
                L::OneOf { items, min, max }
            } else {
                L::Group {
                    items,
                    min,
                    max,
                    inline: t == "(:",
                }
            });
        } else {
            // field token
            let base = t[0..2].to_string();
            let mut rest = &t[2..];
            let mut letters: Vec<String> = Vec::new();
            if let Some(c) = rest.chars().next() {
                if c.is_ascii_uppercase() {
                    letters.push(c.to_string());
                    rest = &rest[1..];
                }
            }
            if rest.starts_with('[') {
                let e = rest.find(']').unwrap();
                for c in rest[1..e].chars() {
                    letters.push(if c == '-' {
                        String::new()
                    } else {
                        c.to_string()
                    });
                }
                rest = &rest[e + 1..];
            }
            if letters.is_empty() {
                letters.push(String::new());
            }
            let (min, max) = parse_quant(rest);
            out.push(L::Field {
                base,
                letters,
                min,
                max,
            });
        }
    }
    out
}

pub fn parse_layout(s: &str) -> Vec<L> {
    let toks: Vec<String> = s.split_whitespace().map(|x| x.to_string()).collect();
    let mut i = 0;
    parse_items(&toks, &mut i, "")
}

/// Where the generation layout was narrowed to unambiguous constructs, the full
/// documented language used for *recognition* (is this tag sequence still a message of the type?)
pub const RECOGNITION_OVERRIDES: &[(&str, &str)] = &[
    (
        "104",
        "20 21R? 23E? 21E? 30 51A? 50[CL]? 50[AK]? 52[ACD]? 26T? 77B? 71A? 72? ( 21 23E? 21C? 21D? 21E? 32B 50[CL]? 50[AK]? 52[ACD]? 57[ABCD]? 59[-A] 70? 26T? 77B? 33B? 71A? 71F? 71G? 36? ){1,} 32B? 19? 71F? 71G? 53[ABD]?",
    ),
    (
        "202",
        "20 21 13C* 32A 52[AD]? 53[ABD]? 54[ABD]? 56[ACD]? 57[ABCD]? 58[AD] 72? 50[AFK]? 52[AD]? 56[ACD]? 57[ABCD]? 59[-AF]? 70? 72? 33B?",
    ),
    (
        "942",
        "20 21? 25[-P] 28C 34F 34F? 13D ( 61 86? )* 90D? 90C? 86?",
    ),
    ("192", "20 21 11S 79?"),
    ("292", "20 21 11S 79?"),
];

pub fn recognition_layouts() -> &'static Vec<(&'static str, Vec<L>)> {
    static S: OnceLock<Vec<(&'static str, Vec<L>)>> = OnceLock::new();
    S.get_or_init(|| {
        RECOGNITION_OVERRIDES
            .iter()
            .map(|(mt, s)| (*mt, parse_layout(s)))
            .collect()
    })
}

pub fn layouts() -> &'static Vec<(&'static str, Vec<L>)> {
    static S: OnceLock<Vec<(&'static str, Vec<L>)>> = OnceLock::new();
    S.get_or_init(|| {
        LAYOUTS
            .iter()
            .map(|(mt, s)| (*mt, parse_layout(s)))
            .collect()
    })
}

pub fn layout_of(mt: &str) -> &'static Vec<L> {
    &layouts()
        .iter()
        .find(|(m, _)| *m == mt)
        .unwrap_or_else(|| panic!("no layout {mt}"))
        .1
}

// ------------------------------------------------------------------ generated messages

#[derive(Clone, Debug, Serialize, Deserialize, PartialEq)]
pub struct GenField {
    pub tag: String,
    pub content: String,
    pub comps: Vec<Comp>,
    /// occurrence indices of the enclosing repeating groups (outermost first)
    pub path: Vec<usize>,
    /// the slot is mandatory within its (present) group
    pub mandatory: bool,
    /// number of option letters the slot allows
    pub n_options: usize,
}

#[derive(Clone, Debug, Serialize, Deserialize, PartialEq)]
pub struct GenMsg {
    pub mt: String,
    pub fields: Vec<GenField>,
}

impl GenMsg {
    pub fn tags(&self) -> Vec<String> {
        self.fields.iter().map(|f| f.tag.clone()).collect()
    }
    /// block-4 text as `extract_block(_, 4)` yields it (leading newline, no terminator)
    /// or as the unit tests write it (no leading newline, `-` terminator).
    pub fn text(&self, crlf: bool, wrapper_style: bool) -> String {
        let nl = if crlf { "\r\n" } else { "\n" };
        let mut s = String::new();
        if wrapper_style {
            s.push_str(nl);
        }
        for f in &self.fields {
            s.push(':');
            s.push_str(&f.tag);
            s.push(':');
            s.push_str(&f.content.replace('\n', nl));
            s.push_str(nl);
        }
        if !wrapper_style {
            s.push('-');
        }
        s
    }
}

pub struct GenOpts {
    /// cap for unbounded repetitions
    pub star_max: usize,
    /// allow the documented repetition cap itself (e.g. 10 transactions)
    pub allow_cap: bool,
    /// also produce one repetition more than the cap (for the repetition-limit rules)
    pub over_cap: bool,
}

fn pick_count(src: &mut Src, min: usize, max: usize, o: &GenOpts) -> usize {
    if max == min {
        src.raw();
        return min;
    }
    if max == 1 && min == 0 {
        return if src.flip() { 1 } else { 0 };
    }
    let hi = if max == UNBOUNDED {
        o.star_max.max(min)
    } else {
        max
    };
    match src.below(8) {
        0 | 1 | 2 => min,
        3 | 4 => (min + 1).min(hi),
        5 => (min + 2).min(hi),
        6 => {
            if o.allow_cap && max != UNBOUNDED && max <= 100 {
                if o.over_cap && src.flip() { max + 1 } else { max }
            } else {
                (min + 1).min(hi)
            }
        }
        _ => src.range(min, hi.min(min + 3)),
    }
}

/// Content generator hook: (mt, tag, src) -> Some((content, comps)) to override the
/// field table (used to keep parse-time semantic constraints satisfied).
pub type ContentHook = dyn Fn(&str, &str, &mut Src) -> Option<(String, Vec<Comp>)> + Sync;

pub fn gen_items(
    mt: &str,
    items: &[L],
    src: &mut Src,
    o: &GenOpts,
    path: &mut Vec<usize>,
    hook: Option<&ContentHook>,
    out: &mut Vec<GenField>,
) {
    for it in items {
        match it {
            L::Field {
                base,
                letters,
                min,
                max,
            } => {
                let n = pick_count(src, *min, *max, o);
                for _ in 0..n {
                    let letter = &letters[src.below(letters.len())];
                    let tag = format!("{base}{letter}");
                    let (content, comps) = match hook.and_then(|h| h(mt, &tag, src)) {
                        Some(x) => x,
                        None => {
                            let sp = spec_of_tag(&tag)
                                .unwrap_or_else(|| panic!("no field spec for tag {tag} in MT{mt}"));
                            let g = sp.g.generate(src);
                            (g.text, g.comps)
                        }
                    };
                    out.push(GenField {
                        tag,
                        content,
                        comps,
                        path: path.clone(),
                        mandatory: *min >= 1,
                        n_options: letters.len(),
                    });
                }
            }
            L::Group {
                items,
                min,
                max,
                inline,
            } => {
                let n = pick_count(src, *min, *max, o);
                for k in 0..n {
                    if !*inline {
                        path.push(k);
                    }
                    gen_items(mt, items, src, o, path, hook, out);
                    if !*inline {
                        path.pop();
                    }
                }
            }
            L::OneOf { items, min, max } => {
                let n = pick_count(src, *min, *max, o);
                for _ in 0..n {
                    let i = src.below(items.len());
                    gen_items(mt, std::slice::from_ref(&items[i]), src, o, path, hook, out);
                }
            }
        }
    }
}

pub fn gen_message(mt: &str, src: &mut Src, o: &GenOpts, hook: Option<&ContentHook>) -> GenMsg {
    let mut fields = Vec::new();
    let mut path = Vec::new();
    gen_items(mt, layout_of(mt), src, o, &mut path, hook, &mut fields);
    GenMsg {
        mt: mt.to_string(),
        fields,
    }
}

// ------------------------------------------------------------------ recogniser

fn tag_matches(base: &str, letters: &[String], tag: &str) -> bool {
    tag.len() >= 2 && &tag[0..2] == base && letters.iter().any(|l| l.as_str() == &tag[2..])
}

use std::collections::BTreeSet;

/// NFA-style recogniser: the set of positions reachable after matching `items` from
/// any position in `from` (no backtracking blow-up).
fn rec_items(items: &[L], tags: &[String], from: &BTreeSet<usize>) -> BTreeSet<usize> {
    let mut cur = from.clone();
    for it in items {
        cur = rec_rep(it, tags, &cur);
        if cur.is_empty() {
            break;
        }
    }
    cur
}

fn rec_once(it: &L, tags: &[String], from: &BTreeSet<usize>) -> BTreeSet<usize> {
    match it {
        L::Field { base, letters, .. } => from
            .iter()
            .filter(|p| **p < tags.len() && tag_matches(base, letters, &tags[**p]))
            .map(|p| p + 1)
            .collect(),
        L::Group { items, .. } => rec_items(items, tags, from),
        L::OneOf { items, .. } => {
            let mut out = BTreeSet::new();
            for alt in items {
                out.extend(rec_rep(alt, tags, from));
            }
            out
        }
    }
}

fn rec_rep(it: &L, tags: &[String], from: &BTreeSet<usize>) -> BTreeSet<usize> {
    let (min, max) = match it {
        L::Field { min, max, .. } | L::Group { min, max, .. } | L::OneOf { min, max, .. } => {
            (*min, *max)
        }
    };
    let mut out = BTreeSet::new();
    if min == 0 {
        out.extend(from.iter().copied());
    }
    let mut cur = from.clone();
    let mut k = 0usize;
    while k < max && k <= tags.len() + 1 {
        let next: BTreeSet<usize> = rec_once(it, tags, &cur);
        k += 1;
        if next.is_empty() {
            break;
        }
        if k >= min {
            out.extend(next.iter().copied());
        }
        // an occurrence that consumes nothing cannot make progress
        if next == cur {
            break;
        }
        cur = next;
    }
    out
}

/// Is the tag sequence in the layout language of the type?
pub fn in_language(mt: &str, tags: &[String]) -> bool {
    let mut from = BTreeSet::new();
    from.insert(0usize);
    let lay = recognition_layouts()
        .iter()
        .find(|(m, _)| *m == mt)
        .map(|x| &x.1)
        .unwrap_or_else(|| layout_of(mt));
    rec_items(lay, tags, &from).contains(&tags.len())
}

/// All tags (base+letter) the layout of the type mentions.
pub fn known_tags(mt: &str) -> Vec<String> {
    fn walk(items: &[L], out: &mut Vec<String>) {
        for it in items {
            match it {
                L::Field { base, letters, .. } => {
                    for l in letters {
                        let t = format!("{base}{l}");
                        if !out.contains(&t) {
                            out.push(t);
                        }
                    }
                }
                L::Group { items, .. } | L::OneOf { items, .. } => walk(items, out),
            }
        }
    }
    let mut out = Vec::new();
    walk(layout_of(mt), &mut out);
    out
}

#[cfg(test)]
mod tests {
    use super::*;
    #[test]
    fn lang() {
        let t = |v: &[&str]| v.iter().map(|s| s.to_string()).collect::<Vec<_>>();
        assert!(in_language(
            "103",
            &t(&["20", "23B", "32A", "50K", "59", "71A"])
        ));
        assert!(!in_language("103", &t(&["20", "32A", "50K", "59", "71A"])));
        assert!(in_language(
            "103",
            &t(&[
                "20", "13C", "13C", "23B", "23E", "32A", "50A", "59F", "71A", "71F", "71F"
            ])
        ));
        assert!(in_language(
            "935",
            &t(&["20", "23", "30", "37H", "37H", "25", "30", "37H", "72"])
        ));
        assert!(!in_language("935", &t(&["20", "23", "25", "30", "37H"])));
        assert!(in_language("296", &t(&["20", "21", "76", "11S", "79"])));
    }
}
