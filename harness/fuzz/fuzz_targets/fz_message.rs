#![no_main]
use libfuzzer_sys::fuzz_target;
use swiftmt_verif::lib_api::MSGS;
use swiftmt_verif::props::c07::TotalCase;
mod common;

// byte 0 selects the requested type and the entry kind, the rest is the message text
fuzz_target!(|data: &[u8]| {
    if data.len() < 2 {
        return;
    }
    let mt = MSGS[data[0] as usize % MSGS.len()].mt;
    let text = String::from_utf8_lossy(&data[1..]).to_string();
    let kind = if data[0] >= 128 { "block4" } else { "message" };
    common::judge(TotalCase { kind: kind.into(), target: mt.to_string(), input: text, mutation: "libfuzzer".into() });
});
