#![no_main]
use libfuzzer_sys::fuzz_target;
use swiftmt_verif::props::c07::TotalCase;
mod common;

fuzz_target!(|data: &[u8]| {
    if data.is_empty() {
        return;
    }
    let k = [1u8, 2, 3, 5][data[0] as usize % 4];
    let text = String::from_utf8_lossy(&data[1..]).to_string();
    common::judge(TotalCase { kind: "header".into(), target: k.to_string(), input: text, mutation: "libfuzzer".into() });
});
