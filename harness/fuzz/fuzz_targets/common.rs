// shared by the targets: run the deterministic C07 oracle (plus semantic oracles) on a decoded case and
// abort on a violation whose signature is not a recorded known finding
use swiftmt_verif::driver::{Ctx, Obs, Tier};
use swiftmt_verif::props::c07::{TotalCase, oracle};

pub fn ctx() -> &'static Ctx {
    static C: std::sync::OnceLock<Ctx> = std::sync::OnceLock::new();
    C.get_or_init(|| {
        swiftmt_verif::lib_api::install_panic_hook();
        Ctx::new("C07", Tier::Thorough, 0, false)
    })
}

pub fn judge(case: TotalCase) {
    let c = ctx();
    let mut obs = Obs::default();
    for v in oracle(&case, &mut obs) {
        if c.known_key(&v.sig).is_none() {
            eprintln!("FUZZ-VIOLATION {} :: {}", v.sig, v.detail);
            std::process::abort();
        }
    }
}
