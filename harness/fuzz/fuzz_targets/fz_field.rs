#![no_main]
use libfuzzer_sys::fuzz_target;
mod common;

// input decoding: swiftmt_verif::props::c07::decode_fuzz_input("fz_field", bytes)
fuzz_target!(|data: &[u8]| {
    let _ = common::ctx();
    if let Some(case) = swiftmt_verif::props::c07::decode_fuzz_input("fz_field", data) {
        common::judge(case);
    }
});
