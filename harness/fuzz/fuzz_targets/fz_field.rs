#![no_main]
use libfuzzer_sys::fuzz_target;
use swiftmt_verif::lib_api::FIELDS;
use swiftmt_verif::props::c07::TotalCase;
mod common;

fuzz_target!(|data: &[u8]| {
    if data.is_empty() {
        return;
    }
    let f = FIELDS[data[0] as usize % FIELDS.len()].name;
    let text = String::from_utf8_lossy(&data[1..]).to_string();
    common::judge(TotalCase { kind: "field".into(), target: f.to_string(), input: text, mutation: "libfuzzer".into() });
});
