#![no_main]
use libfuzzer_sys::fuzz_target;
use swiftmt_verif::choice::Src;
use swiftmt_verif::lib_api::MSGS;
use swiftmt_verif::props::c07::{TotalCase, damage_json};
mod common;

// bytes -> choices: pick a type, take the JSON of its minimal valid message, damage up to 3 places
fuzz_target!(|data: &[u8]| {
    if data.len() < 8 {
        return;
    }
    let _ = common::ctx();
    let choices: Vec<u32> = data.chunks(4).map(|c| { let mut b = [0u8; 4]; b[..c.len()].copy_from_slice(c); u32::from_le_bytes(b) }).collect();
    let mut src = Src::new(&choices);
    let mt = MSGS[src.below(MSGS.len())].mt;
    let body = swiftmt_verif::props::c10::minimal_body(mt);
    let text = format!("{{1:F01BANKDEFFAXXX0000000000}}{{2:I{}BANKUS33AXXXN}}{{3:{{108:MUR}}{{121:9690a785-2ed8-4101-a5e2-35f94f151d1d}}}}{{4:\n{}-}}{{5:{{CHK:123456789ABC}}}}", mt, body);
    let mut v = match (swiftmt_verif::lib_api::msg_ops(mt).parse_full)(&text) {
        Ok(m) => m.json,
        Err(_) => return,
    };
    for _ in 0..(1 + src.below(3)) {
        damage_json(&mut v, &mut src);
    }
    common::judge(TotalCase { kind: "json".into(), target: mt.to_string(), input: v.to_string(), mutation: "libfuzzer".into() });
});
